package main

func b(kv ...any) map[string]int {
	m := map[string]int{}
	for i := 0; i+1 < len(kv); i += 2 {
		m[kv[i].(string)] = kv[i+1].(int)
	}
	return m
}

var (
	aSummaries = "library summaries of DESIGN.md §2.5 (math.Int as SMT Int with the 2^256 limit, errors, fmt/strconv decimal rendering, bech32 preimage axiom, collections as association lists, codec blobs) — validated on this run by native trace comparison"
	aE1        = "E1: IBC core discards the cached context when the acknowledgement is not successful; baseapp rolls back a failing message"
	aE2        = "E2: IBC core only delivers packets whose channel identifiers exist in state (channel-N, non-empty ports)"
	aE3        = "E3: the collections key codec is injective on the key tuples used"
	aE5        = "E5: single-threaded execution (one message at a time)"
	aModels    = "E4: environment models of DESIGN.md §2.6 (ledger, ICS-20 application, CCTP / Hyperlane / bank message servers, event service) written in Go, executed symbolically and natively"
)

func properties() []Property {
	return []Property{
		{ID: "C20", Assumptions: []string{aSummaries, "strconv.Atoi/ParseInt/ParseUint, strings.Index are executed from their SSA bodies, not summarised", "channeltypes.IsValidChannelID is summarised as the byte predicate ^channel-[0-9]{1,20}$ with value <= 2^64-1 (ibc-go v8.6.1 ParseChannelSequence)"},
			Harnesses: []HarnessSpec{
				{Name: "H_C20_canon_cctp", Profile: "arith", Quick: b("strlen", 12), Thorough: b("strlen", 33), Covers: []string{"accepted", "rejected"}},
				{Name: "H_C20_canon_hyp", Profile: "arith", Quick: b("strlen", 12), Thorough: b("strlen", 33), Covers: []string{"accepted", "rejected"}},
				{Name: "H_C20_attr_cctp", Profile: "arith"},
				{Name: "H_C20_attr_hyp", Profile: "arith"},
				{Name: "H_C20_roundtrip_ibc", Profile: "bit", Quick: b("strlen", 12), Thorough: b("strlen", 33), Covers: []string{"valid", "invalid"}},
				{Name: "H_C20_roundtrip_cctp", Profile: "arith", Quick: b("strlen", 8), Thorough: b("strlen", 12), Covers: []string{"valid", "invalid"}},
				{Name: "H_C20_roundtrip_hyp", Profile: "arith", Quick: b("strlen", 8), Thorough: b("strlen", 12), Covers: []string{"valid", "invalid"}},
				{Name: "H_C20_roundtrip_internal", Profile: "bit", Quick: b("strlen", 12), Thorough: b("strlen", 33), Covers: []string{"valid", "invalid"}},
				{Name: "H_C20_distinct", Profile: "bit", Quick: b("strlen", 3), Thorough: b("strlen", 5), Covers: []string{"both-valid", "invalid"}},
				{Name: "H_C20_parse_sound", Profile: "arith", Quick: b("idlen", 8), Thorough: b("idlen", 12), Covers: []string{"parsed", "refused"}},
			}},
	}
}
