package main

func b(kv ...any) map[string]int {
	m := map[string]int{}
	for i := 0; i+1 < len(kv); i += 2 {
		m[kv[i].(string)] = kv[i+1].(int)
	}
	return m
}

var (
	aSummaries = "library summaries of DESIGN.md §2.5 (math.Int as SMT Int with the 2^256 limit, errors, fmt/strconv decimal rendering, bech32 preimage axiom, collections as association lists, codec blobs) — validated on this run by native trace comparison"
	aE1        = "E1: IBC core discards the cached context when the acknowledgement is not successful; baseapp rolls back a failing message"
	aE2        = "E2: IBC core only delivers packets whose channel identifiers exist in state (channel-N, non-empty ports)"
	aE3        = "E3: the collections key codec is injective on the key tuples used"
	aE5        = "E5: single-threaded execution (one message at a time)"
	aModels    = "E4: environment models of DESIGN.md §2.6 (ledger, ICS-20 application, CCTP / Hyperlane / bank message servers, event service) written in Go, executed symbolically and natively"
)

func properties() []Property {
	return []Property{
		{ID: "C01", Assumptions: []string{aSummaries, aModels, aE1, aE2, "receiver strings: both spellings of the orbiter address, a mixed-case spelling, other accounts, the blocked dust collector, empty, malformed, and an arbitrary 48-byte string; an arbitrary string other than a spelling of a known account is treated as undecodable", "'all prior histories' = arbitrary prior balances of the orbiter account, arbitrary escrow balance, arbitrary pause / parameter configuration (one inductive step)"},
			Harnesses: []HarnessSpec{
				{Name: "H_C01_receivers", Profile: "bit", Quick: b("rcvKinds", 9, "denomKinds", 2, "memoKinds", 2, "amountKinds", 3, "intKinds", 1, "fees", 0, "priors", 1, "pauses", 0, "ptMax", 0, "feeRcpKinds", 1, "faults", 0, "earlier", 0, "hypVariants", 0, "amountSpellings", 0), Covers: []string{"error-ack", "success-ack", "success-ack-to-orbiter", "success-ack-to-someone-else"}},
				{Name: "H_C01_denoms", Profile: "bit", Quick: b("rcvKinds", 2, "denomKinds", 5, "memoKinds", 2, "amountKinds", 3, "intKinds", 1, "fees", 0, "priors", 1, "pauses", 0, "ptMax", 0, "feeRcpKinds", 1, "faults", 0, "earlier", 0, "hypVariants", 0, "amountSpellings", 1), Covers: []string{"error-ack", "success-ack", "success-ack-to-orbiter"}},
				{Name: "H_C01_payloads", Profile: "bit", Quick: b("rcvKinds", 2, "denomKinds", 1, "memoKinds", 6, "amountKinds", 1, "intKinds", 6, "fees", 1, "priors", 1, "pauses", 0, "ptMax", 0, "feeRcpKinds", 3, "faults", 0, "earlier", 0, "hypVariants", 1, "amountSpellings", 0), Thorough: b("rcvKinds", 2, "denomKinds", 1, "memoKinds", 6, "amountKinds", 1, "intKinds", 6, "fees", 1, "priors", 1, "pauses", 1, "ptMax", 1, "feeRcpKinds", 3, "faults", 0, "earlier", 0, "hypVariants", 1, "amountSpellings", 0), Covers: []string{"error-ack", "success-ack", "success-ack-to-orbiter"}},
				{Name: "H_C01_faults", Profile: "bit", Quick: b("rcvKinds", 2, "denomKinds", 1, "memoKinds", 1, "amountKinds", 1, "intKinds", 2, "fees", 1, "priors", 1, "pauses", 0, "ptMax", 0, "feeRcpKinds", 2, "faults", 1, "earlier", 0, "hypVariants", 0, "amountSpellings", 0), Covers: []string{"error-ack", "success-ack", "success-ack-to-orbiter"}},
				{Name: "H_C01_encodings", Profile: "bit", Covers: []string{"refused", "success", "orbiter-transfer-executed"}},
				{Name: "H_C01_sequence", Profile: "bit", Quick: b("rcvKinds", 2, "denomKinds", 5, "memoKinds", 2, "amountKinds", 1, "intKinds", 2, "fees", 1, "priors", 1, "pauses", 0, "ptMax", 0, "feeRcpKinds", 1, "faults", 0, "earlier", 1, "hypVariants", 0, "amountSpellings", 0), Covers: []string{"error-ack", "success-ack-to-orbiter", "after-an-earlier-transfer"}},
			}},
		{ID: "C02", Assumptions: []string{aSummaries, aModels, aE1, aE5, "ledger = ten tracked accounts (orbiter, dust collector, users, fee recipients, escrow, CCTP / warp / transfer module accounts) x four denoms; 'interleavings with other transfers' are sequential histories, covered by starting from an arbitrary ledger"},
			Harnesses: []HarnessSpec{
				{Name: "H_C02_conservation", Profile: "bit", Quick: b("rcvKinds", 2, "denomKinds", 1, "memoKinds", 1, "amountKinds", 1, "intKinds", 2, "fees", 2, "priors", 1, "pauses", 0, "ptMax", 0, "feeRcpKinds", 1, "faults", 0, "earlier", 0, "hypVariants", 1, "amountSpellings", 0), Thorough: b("rcvKinds", 2, "denomKinds", 1, "memoKinds", 1, "amountKinds", 1, "intKinds", 2, "fees", 3, "priors", 1, "pauses", 0, "ptMax", 0, "feeRcpKinds", 1, "faults", 0, "earlier", 0, "hypVariants", 0, "amountSpellings", 0), Covers: []string{"successful-orbiter-transfer", "not-a-successful-orbiter-transfer"}},
				{Name: "H_C02_faults", Profile: "bit", Quick: b("rcvKinds", 1, "denomKinds", 1, "memoKinds", 1, "amountKinds", 1, "intKinds", 1, "fees", 1, "priors", 1, "pauses", 0, "ptMax", 0, "feeRcpKinds", 1, "faults", 1, "earlier", 0, "hypVariants", 0, "amountSpellings", 0), Covers: []string{"successful-orbiter-transfer", "not-a-successful-orbiter-transfer"}},
				{Name: "H_C02_sequence", Profile: "bit", Quick: b("rcvKinds", 1, "denomKinds", 1, "memoKinds", 1, "amountKinds", 1, "intKinds", 2, "fees", 1, "priors", 1, "pauses", 0, "ptMax", 0, "feeRcpKinds", 1, "faults", 0, "earlier", 1, "hypVariants", 0, "amountSpellings", 0), Covers: []string{"successful-orbiter-transfer", "after-an-earlier-transfer"}},
			}},
		{ID: "C03", Assumptions: []string{aSummaries, aModels, aE1, "every fallible environment call (each bank send, the sweep, the ICS-20 application, the token query, each bridge request, each event emission) draws an independent failure bit, so all subsets of failures are covered; naturally occurring failures are the same bits of the respective model", "statistics failures are the documented exception (collections writes do not fail in the model)"},
			Harnesses: []HarnessSpec{
				{Name: "H_C03_faults", Profile: "bit", Quick: b("rcvKinds", 1, "denomKinds", 1, "memoKinds", 1, "amountKinds", 1, "intKinds", 2, "fees", 1, "priors", 1, "pauses", 0, "ptMax", 0, "feeRcpKinds", 2, "faults", 0, "earlier", 0, "hypVariants", 0, "amountSpellings", 0), Thorough: b("rcvKinds", 2, "denomKinds", 1, "memoKinds", 1, "amountKinds", 1, "intKinds", 2, "fees", 2, "priors", 1, "pauses", 0, "ptMax", 0, "feeRcpKinds", 2, "faults", 0, "earlier", 0, "hypVariants", 0, "amountSpellings", 0), Covers: []string{"some-step-failed", "error-ack", "success-ack", "success-ack-to-orbiter"}},
				{Name: "H_C03_fees2", Profile: "bit", Quick: b("rcvKinds", 1, "denomKinds", 1, "memoKinds", 1, "amountKinds", 1, "intKinds", 1, "fees", 2, "priors", 0, "pauses", 0, "ptMax", 0, "feeRcpKinds", 1, "faults", 0, "earlier", 0, "hypVariants", 0, "amountSpellings", 0), Covers: []string{"some-step-failed", "error-ack", "success-ack-to-orbiter"}},
				{Name: "H_C03_panics", Profile: "bit", Quick: b("rcvKinds", 1, "denomKinds", 1, "memoKinds", 1, "amountKinds", 1, "intKinds", 2, "fees", 1, "priors", 1, "pauses", 0, "ptMax", 0, "feeRcpKinds", 1, "faults", 0, "earlier", 0, "hypVariants", 0, "amountSpellings", 0), Covers: []string{"receive-aborted", "success-ack"}},
			}},
		{ID: "C05", Assumptions: []string{aSummaries, aModels, "the transfer attributes are those after arbitrary pre-actions: source amount A, destination amount D with 0 < D <= A (both symbolic), orbiter balance exactly D", "byte fields are arbitrary byte slices of 0..bytes bytes (bytes = 33 = one past the only length Hyperlane accepts); hook metadata from {empty, 0x, valid hex, bad hex, no prefix, odd length}", "of depinject.go, ProvideModule (authority resolution, keeper construction) is executed by H_C10_configured; InjectComponents (wiring of the real CCTP / warp / bank keepers) is outside the claim (the harness mirrors it with the exported constructors and environment models)"},
			Harnesses: []HarnessSpec{
				{Name: "H_C05_cctp", Profile: "bit", Quick: b("bytes", 33), Covers: []string{"refused", "forwarded"}},
				{Name: "H_C05_hyperlane", Profile: "bit", Quick: b("bytes", 33, "hookSym", 0, "bigDomains", 0), Thorough: b("bytes", 33, "hookSym", 1, "bigDomains", 0), TimeoutQuick: 300, TimeoutThorough: 2400, Covers: []string{"refused", "forwarded"}},
				{Name: "H_C05_internal", Profile: "bit", Covers: []string{"refused", "forwarded"}},
				{Name: "H_C05_mismatch", Profile: "bit", Covers: []string{"identifier-and-attributes-agree", "mismatch"}},
				{Name: "H_C05_actions", Profile: "bit", Covers: []string{"fee-action-runs", "action-refused"}},
				{Name: "H_C05_replace", Profile: "bit", Quick: b("blob", 8), Thorough: b("blob", 64), Covers: []string{"cctp-refused", "replaced"}},
				{Name: "H_C05_sequence", Profile: "bit", Covers: []string{"first-forwarded", "second-forwarded"}},
			}},
		{ID: "C06", Assumptions: []string{aSummaries, aModels, "registered action controllers: the real fee controller and a denomination-changing harness controller under ACTION_SWAP (records the coin it sees, replaces it by an arbitrary coin of another denom and gives the orbiter account that coin)", "amounts < 10^60, bps in [1, 10000]; internal route (the only one that carries any denomination)"},
			Harnesses: []HarnessSpec{
				{Name: "H_C06_order", Profile: "bit", Covers: []string{"repeated-identifier", "refused", "executed"}},
			}},
		{ID: "C07", Assumptions: []string{aSummaries, aModels, aE2, "events/state of the wrapped application itself are identical because it is the same single call with the same arguments on the same context (the application's internals are a model)", "acknowledgement, timeout, channel-close/open-confirm, SendPacket and GetAppVersion are driven on the middleware value with recording wrapped objects (H_C07_callbacks); the remaining channel handshake and upgrade callbacks are promoted from the same embedded interfaces and are not driven"},
			Harnesses: []HarnessSpec{
				{Name: "H_C07_packets", Profile: "bit", Quick: b("rcvKinds", 9, "denomKinds", 4, "memoKinds", 2, "amountKinds", 3, "intKinds", 1, "fees", 0, "priors", 1, "pauses", 0, "ptMax", 0, "garbage", 1, "feeRcpKinds", 1, "faults", 0, "earlier", 0, "hypVariants", 0, "amountSpellings", 0), Covers: []string{"not-for-orbiter"}},
				{Name: "H_C07_channels", Profile: "bit", Covers: []string{"not-for-orbiter"}},
				{Name: "H_C07_callbacks", Profile: "bit", Covers: []string{"callback-called"}},
				{Name: "H_C07_sequence", Profile: "bit", Covers: []string{"not-for-orbiter", "after-an-orbiter-transfer"}},
				{Name: "H_C07_abort", Profile: "bit", Covers: []string{"not-for-orbiter", "application-aborted"}},
				{Name: "H_C07_payloads", Profile: "bit", Quick: b("rcvKinds", 4, "denomKinds", 1, "memoKinds", 6, "amountKinds", 1, "intKinds", 2, "fees", 1, "priors", 1, "pauses", 1, "ptMax", 1, "garbage", 0, "feeRcpKinds", 1, "faults", 0, "earlier", 0, "hypVariants", 0, "amountSpellings", 0), Covers: []string{"not-for-orbiter"}},
			}},
		{ID: "C11", Assumptions: []string{aSummaries, aModels, aE1, "paired executions: the same drawn packet on two freshly wired modules whose states differ only in the coins already on the orbiter account (arbitrary amounts in the transferred denom and one other denom vs. none)", "bank send restrictions of other modules on the sweep are outside the claim"},
			Harnesses: []HarnessSpec{
				{Name: "H_C11_priors", Profile: "bit", Quick: b("rcvKinds", 2, "denomKinds", 1, "memoKinds", 1, "amountKinds", 1, "intKinds", 2, "fees", 1, "priors", 1, "pauses", 0, "ptMax", 1, "feeRcpKinds", 1, "faults", 0, "earlier", 0, "hypVariants", 0, "amountSpellings", 0), Thorough: b("rcvKinds", 2, "denomKinds", 2, "memoKinds", 1, "amountKinds", 1, "intKinds", 2, "fees", 2, "priors", 1, "pauses", 0, "ptMax", 1, "feeRcpKinds", 1, "faults", 0, "earlier", 0, "hypVariants", 0, "amountSpellings", 0), Covers: []string{"both-succeed", "both-refused"}},
				{Name: "H_C11_sequence", Profile: "bit", Quick: b("rcvKinds", 1, "denomKinds", 1, "memoKinds", 1, "amountKinds", 1, "intKinds", 2, "fees", 1, "priors", 1, "pauses", 0, "ptMax", 0, "feeRcpKinds", 1, "faults", 0, "earlier", 1, "hypVariants", 0, "amountSpellings", 0), Covers: []string{"both-succeed", "after-an-earlier-transfer"}},
			}},
		{ID: "C04", Assumptions: []string{aSummaries, aModels, "math.NewIntFromString on a concrete string is computed with math/big (SetString base 0, 256-bit limit) exactly as cosmossdk.io/math does; fixed fee amounts are the decimal rendering of an arbitrary symbolic Int or one of a few non-numbers", "fee recipients are concrete strings (two valid accounts, possibly repeated, and malformed ones): bech32 decoding itself is the SDK's"},
			Harnesses: []HarnessSpec{
				{Name: "H_C04_fee", Profile: "bit", Quick: b("entries", 2, "rcpKinds", 3, "feeKinds", 5, "minEntries", 0, "laterFixed", 0), Thorough: b("entries", 2, "rcpKinds", 5, "feeKinds", 5, "minEntries", 0, "laterFixed", 0), Covers: []string{"refused", "accepted"}, TimeoutThorough: 2400},
				{Name: "H_C04_fee3", Profile: "bit", Quick: b("entries", 3, "minEntries", 3, "rcpKinds", 2, "feeKinds", 2, "laterFixed", 1), Thorough: b("entries", 3, "minEntries", 0, "rcpKinds", 2, "feeKinds", 3, "laterFixed", 0), Covers: []string{"refused", "accepted"}, TimeoutThorough: 2400},
				{Name: "H_C04_count", Profile: "bit", Covers: []string{"refused", "accepted"}},
				{Name: "H_C04_compute_amount", Profile: "bit", Covers: []string{"overflow", "non-positive", "positive"}},
			}},
		{ID: "C08", Assumptions: []string{aSummaries, aModels, aE1, aE3, "pre-state: any subset of paused protocols and up to prePairs arbitrary paused pairs (one inductive step covers histories of any length)", "counterparty strings of at most strlen bytes; batches of 1..batch ids (empty batches pause the whole protocol and are outside the claim); probe domains < 1000"},
			Harnesses: []HarnessSpec{
				{Name: "H_C08_step", Profile: "bit", Quick: b("strlen", 1, "prePairs", 1, "batch", 2), Thorough: b("strlen", 2, "prePairs", 1, "batch", 2), Covers: []string{"pre-state-built", "message-accepted", "message-refused"}, TimeoutQuick: 240},
				{Name: "H_C08_enforce", Profile: "bit", Quick: b("strlen", 2, "prePairs", 1), Thorough: b("strlen", 3, "prePairs", 2), Covers: []string{"pre-state-built", "probe-paused", "probe-not-paused"}},
				{Name: "H_C08_history", Profile: "bit", Quick: b("strlen", 1, "steps", 2, "batch", 1), Thorough: b("strlen", 1, "steps", 3, "batch", 1), Covers: []string{"message-accepted", "message-refused", "probe-paused", "probe-not-paused"}, TimeoutQuick: 240},
				{Name: "H_C08_batch_limit", Profile: "bit"},
				{Name: "H_C08_discarded", Profile: "bit", Covers: []string{"pre-state-built", "message-succeeded-in-a-discarded-transaction", "probe-paused", "probe-not-paused"}},
			}},
		{ID: "C09", Assumptions: []string{aSummaries, aModels, aE1, "pre-state: any subset of {FEE, SWAP} paused; a recording stub controller is registered under ACTION_SWAP so that both identifiers are routable"},
			Harnesses: []HarnessSpec{
				{Name: "H_C09_actions", Profile: "bit", Quick: b("steps", 2), Thorough: b("steps", 3), Covers: []string{"message-accepted", "message-refused", "probe-with-paused-action", "probe-unaffected"}},
			}},
		{ID: "C10", Assumptions: []string{aSummaries, aModels, "the servers are the ones keeper.RegisterMsgServers registers on a recording configurator", "signer: any string of at most signerlen bytes other than the authority's bech32 string in lower or upper case (both spellings denote the authority account)", "state unchanged = identical content of every orbiter collection (natively: identical key/value content of the orbiter store), no event, no bridge request, no bank movement"},
			Harnesses: []HarnessSpec{
				{Name: "H_C10_unauthorized", Profile: "bit", RPCCoverage: true, Quick: b("signerlen", 50), Thorough: b("signerlen", 64), Covers: []string{"authority-succeeds-with-valid-content", "rpc:forwarder.PauseProtocol", "rpc:forwarder.UnpauseProtocol", "rpc:forwarder.PauseCrossChains", "rpc:forwarder.UnpauseCrossChains", "rpc:forwarder.ReplaceDepositForBurn", "rpc:executor.PauseAction", "rpc:executor.UnpauseAction", "rpc:adapter.UpdateParams"}},
				{Name: "H_C10_configured", Profile: "bit", Covers: []string{"configured-authority-signs", "someone-else-signs"}},
			}},
		{ID: "C12", Assumptions: []string{aSummaries, aModels, aE3, "one inductive step from arbitrary pre-existing statistics: up to preEntries amount entries and preEntries count entries whose keys coincide with the new transfer's keys or differ in one component (source, destination protocol, destination counterparty, denom)", "pre-state invariant (bound): totals < 10^70, amounts < 10^60, counts < 2^64-1 — the statistics overflow paths (deliberately swallowed by DispatchPayload) are outside the claim", "denomination change is exercised with a harness controller registered under ACTION_SWAP on the internal route"},
			Harnesses: []HarnessSpec{
				{Name: "H_C12_step", Profile: "bit", Quick: b("preEntries", 1), Thorough: b("preEntries", 2), Covers: []string{"pre-state-built", "transfer-refused", "transfer-succeeded", "transaction-aborted", "discarded-dispatch-succeeded"}},
			}},
		{ID: "C13", Assumptions: []string{aSummaries, aModels, aE3, "ledgers of up to entries entries written through the component's own setters (arbitrary totals incl. one-sided and zero entries, two sources, five destinations, two denoms), plus one entry for EVERY uint32 destination domain for the index-key derivation", "listings run on the CollectionPaginate summary with the REAL option and transform closures and the real index closures; page limits, offsets, next-keys, reverse and count-total are library code (query.CollectionPaginate / collections iterators) and are NOT decided — only the unpaged request (default page size 100) is"},
			Harnesses: []HarnessSpec{
				{Name: "H_C13_amounts", Profile: "bit", Quick: b("entries", 2, "srcs", 1, "doms", 1), Thorough: b("entries", 2, "srcs", 2, "doms", 2), Covers: []string{"ledger-built", "direct-lookup-hit", "direct-lookup-miss"}, TimeoutQuick: 300},
				{Name: "H_C13_counts", Profile: "bit", Quick: b("entries", 2, "srcs", 2, "doms", 2), Thorough: b("entries", 3, "srcs", 1, "doms", 1), Covers: []string{"ledger-built", "direct-lookup-hit", "direct-lookup-miss"}, TimeoutQuick: 300},
				{Name: "H_C13_index_keys", Profile: "arith", Covers: []string{"stored"}},
				{Name: "H_C13_paging", Profile: "bit", Quick: b("entries", 4, "limits", 3), Thorough: b("entries", 6, "limits", 7), Covers: []string{"ledger-built", "offset-page", "walk-finished"}},
				{Name: "H_C13_prefix_keys", Profile: "bit", Covers: []string{"reverse-walk", "forward-walk"}},
			}},
		{ID: "C14", Assumptions: []string{aSummaries, aModels, "decoded payload shapes are built as Go values through the exported API (every pointer position nil or not, identifiers any int32, byte fields of any length up to the bound, integers and coins of any value; nil math.Int excluded because the Any round trip never yields one) and fed to the stages in the order the receive path calls them: Payload.Validate, the transfer hook, payload processing, and the dispatcher directly", "every instruction that can panic (nil dereference, index / slice bounds, slice-to-array conversion, division by zero, failed type assertion, nil map write, explicit panic) and every documented panic of a summarised library function (math.Int overflow, nil Int receiver, sdk.NewCoin / NewCoins on invalid input) is an obligation on every path", "panics inside the JSON / protobuf codecs and inside bech32 are outside the claim (summarised): e.g. \"fees_info\":[null] panics inside jsonpb before any orbiter code runs"},
			Harnesses: []HarnessSpec{
				{Name: "H_C14_action_shapes", Profile: "bit", Quick: b("actionShapes", 1, "fwdShapes", 0, "actions", 1, "feeEntries", 1, "bytes", 33, "symBytes", 0, "metaKinds", 4), Thorough: b("actionShapes", 1, "fwdShapes", 0, "actions", 2, "feeEntries", 1, "bytes", 33, "symBytes", 1, "metaKinds", 6), Covers: []string{"malformed-payload-refused", "payload-validated", "processed", "dispatcher-refused", "dispatched"}, TimeoutQuick: 300},
				{Name: "H_C14_forwarding_shapes", Profile: "bit", Quick: b("actionShapes", 0, "fwdShapes", 1, "actions", 0, "feeEntries", 0, "bytes", 33, "symBytes", 0, "metaKinds", 4), Thorough: b("actionShapes", 0, "fwdShapes", 1, "actions", 0, "feeEntries", 0, "bytes", 33, "symBytes", 1, "metaKinds", 6), Covers: []string{"malformed-payload-refused", "payload-validated", "processed", "dispatcher-refused", "dispatched"}, TimeoutQuick: 300},
				{Name: "H_C14_packet_envelope", Profile: "bit", Quick: b("envelope", 1, "fields", 0, "chanlen", 10, "segments", 0, "seglen", 0), Thorough: b("envelope", 1, "fields", 0, "chanlen", 12, "segments", 0, "seglen", 0), Covers: []string{"success-ack", "error-ack"}, TimeoutQuick: 300},
				{Name: "H_C14_packet_fields", Profile: "bit", Quick: b("envelope", 0, "fields", 1, "chanlen", 0, "segments", 3, "seglen", 1), Thorough: b("envelope", 0, "fields", 1, "chanlen", 0, "segments", 4, "seglen", 1), Covers: []string{"success-ack", "error-ack"}, TimeoutQuick: 300},
				{Name: "H_C14_memo_documents", Profile: "bit", Covers: []string{"success-ack", "error-ack"}},
			}},
		{ID: "C15", Assumptions: []string{aSummaries, "the JSON / protobuf codecs are summarised as an abstract encode / decode pair over blobs with decode(encode(x)) = x; concrete documents (not JSON, null, arrays, missing / null / scalar orbiter key, two root keys) go through the real encoding/json pre-check; unknown-field rejection, the type-URL registry, enum spelling and duplicated JSON keys are behaviour of ProtoCodec / jsonpb and are NOT decided", "the round trip and purity assertions are additionally executed natively with the real codec on every replayed path (trace validation)"},
			Harnesses: []HarnessSpec{
				{Name: "H_C15_validate", Profile: "bit", Quick: b("actionShapes", 1, "fwdShapes", 1, "actions", 1, "feeEntries", 0, "bytes", 2, "symBytes", 1, "metaKinds", 3), Thorough: b("actionShapes", 1, "fwdShapes", 1, "actions", 2, "feeEntries", 0, "bytes", 2, "symBytes", 1, "metaKinds", 3), Covers: []string{"accepted", "refused"}, TimeoutQuick: 300},
				{Name: "H_C15_ids", Profile: "bit", Covers: []string{"accepted", "refused"}},
				{Name: "H_C15_parse", Profile: "bit", Covers: []string{"accepted", "refused", "constructor-refused"}},
			}},
		{ID: "C16", Assumptions: []string{aSummaries, aModels, "denominations are built from 1..segments '/'-free segments (the identifiers transfer / channel-7 / channel-8 / uusdc or arbitrary bytes of length 0..seglen), empty segments allowed; a denomination with more separators than that is outside the claim", "source port/channel: transfer/channel-7 or transfer/channel-8", "reference = the ICS-20 application's own derivation written with the same ibc-go helpers (ReceiverChainIsSource, GetDenomPrefix, ParseDenomTrace); channel identifier syntax is ibc-go's (summarised as a byte predicate)"},
			Harnesses: []HarnessSpec{
				{Name: "H_C16_denom", Profile: "bit", Quick: b("segments", 5, "seglen", 1), Thorough: b("segments", 7, "seglen", 1), Covers: []string{"accepted", "refused", "refused-not-returning"}, TimeoutThorough: 2400},
				{Name: "H_C16_ports", Profile: "bit", Covers: []string{"accepted", "refused"}},
				{Name: "H_C16_sequence", Profile: "bit", Covers: []string{"accepted", "refused"}},
				{Name: "H_C16_credit", Profile: "bit", Quick: b("rcvKinds", 2, "denomKinds", 4, "memoKinds", 1, "amountKinds", 1, "intKinds", 1, "fees", 1, "priors", 1, "pauses", 0, "ptMax", 0, "feeRcpKinds", 2, "faults", 0, "earlier", 0, "hypVariants", 1, "amountSpellings", 1), Covers: []string{"accepted", "not-accepted"}},
			}},
		{ID: "C17", Assumptions: []string{aSummaries, aModels, aE3, "the collections summary includes the key codec's refusal of 0x00 in non-terminal string key components", "genesis lists of at most list / entries elements, counterparty strings of at most strlen bytes, protocol / action ids any int32; JSON (un)marshalling of the genesis document and module.go glue are outside the claim"},
			Harnesses: []HarnessSpec{
				{Name: "H_C17_forwarder", Profile: "bit", Quick: b("list", 2, "strlen", 2), Thorough: b("list", 2, "strlen", 3), Covers: []string{"genesis-rejected", "genesis-accepted", "genesis-initialised"}},
				{Name: "H_C17_executor", Profile: "bit", Quick: b("list", 3), Thorough: b("list", 4), Covers: []string{"genesis-rejected", "genesis-accepted", "genesis-initialised"}},
				{Name: "H_C17_adapter", Profile: "bit", Covers: []string{"genesis-accepted", "genesis-initialised"}},
				{Name: "H_C17_roundtrip", Profile: "bit", Quick: b("steps", 2, "strlen", 1), Thorough: b("steps", 2, "strlen", 2), Covers: []string{"re-initialised"}, TimeoutQuick: 300},
				{Name: "H_C17_dispatcher", Profile: "bit", Quick: b("entries", 1, "strlen", 1, "denomlen", 3), Thorough: b("entries", 1, "strlen", 2, "denomlen", 4), TimeoutQuick: 300, Covers: []string{"genesis-rejected", "genesis-accepted", "genesis-initialised"}},
				{Name: "H_C17_boundary", Profile: "bit", Covers: []string{"genesis-rejected", "genesis-accepted"}},
				{Name: "H_C17_many", Profile: "bit", Covers: []string{"exported"}},
				{Name: "H_C17_denoms", Profile: "bit", Covers: []string{"exported"}},
			}},
		{ID: "C18", Assumptions: []string{aSummaries, aModels, aE1, "the passthrough payload is an all-zero byte slice whose LENGTH is symbolic in [0, maxlen] (the hook reads only len)"},
			Harnesses: []HarnessSpec{
				{Name: "H_C18_limit", Profile: "bit", Quick: b("updates", 2, "maxlen", 70000), Thorough: b("updates", 4, "maxlen", 5000000), Covers: []string{"over-limit", "within-limit", "params-unreadable"}},
			}},
		{ID: "C19", Assumptions: []string{aSummaries, aModels, aE5, "run-to-run variation is modelled as symbolic input of the second of two runs of the same history: the iteration order of every map range executed (all permutations up to 4 entries, rotations and reversals beyond), every reading of time.Now / time.Since and of math/rand, math/rand/v2, crypto/rand (fresh values), and the address of every object that package fmt would print as an address (pointers below the top level of an operand, pointers to non-composite values, %p, function values, unexported fields that hide a String method) — named by the allocation, so two runs never agree on it; package-level variables are shared by the two runs as inside one process", "formatted texts (fmt.Sprintf / Errorf, errors.New, cosmossdk.io/errors Wrap / Wrapf, registered error descriptions) are text terms: skeleton (format, operand shapes, address places) + printed leaves; two texts are the same iff the skeletons are identical and the leaves equal. String / Error / Format METHODS that fmt calls are assumed to be deterministic functions of the operand's content", "goroutines, select, reflection and unsafe conversions of pointers to integers are not encoded: a path that reaches one ends unsupported and is decided by the native two-run comparison (24 repeats) only", "NOT decided: variation that exists only between processes or machines and not between two runs in one process (hash seeds of third-party libraries, GOARCH-dependent integer sizes, environment variables, locale), gas consumption, and the byte encoding of the exported genesis document (the exported VALUE is compared)"},
			Harnesses: []HarnessSpec{
				{Name: "H_C19_replay", NativeDecides: true, Profile: "bit", Quick: b("rcvKinds", 2, "denomKinds", 1, "memoKinds", 6, "amountKinds", 2, "intKinds", 6, "fees", 1, "priors", 1, "pauses", 0, "ptMax", 0, "feeRcpKinds", 2, "faults", 0, "earlier", 0, "hypVariants", 0, "amountSpellings", 0), Thorough: b("rcvKinds", 2, "denomKinds", 2, "memoKinds", 6, "amountKinds", 3, "intKinds", 6, "fees", 1, "priors", 1, "pauses", 0, "ptMax", 0, "feeRcpKinds", 3, "faults", 0, "earlier", 0, "hypVariants", 1, "amountSpellings", 0), Covers: []string{"success-ack", "error-ack"}},
				{Name: "H_C19_refusals", NativeDecides: true, Profile: "bit", Quick: b("rcvKinds", 1, "denomKinds", 1, "memoKinds", 1, "amountKinds", 1, "intKinds", 2, "fees", 1, "priors", 0, "pauses", 1, "ptMax", 1, "feeRcpKinds", 1, "faults", 0, "earlier", 0, "hypVariants", 0, "amountSpellings", 0), Thorough: b("rcvKinds", 1, "denomKinds", 2, "memoKinds", 1, "amountKinds", 2, "intKinds", 2, "fees", 1, "priors", 1, "pauses", 1, "ptMax", 1, "feeRcpKinds", 1, "faults", 0, "earlier", 0, "hypVariants", 0, "amountSpellings", 0), Covers: []string{"success-ack", "error-ack"}},
				{Name: "H_C19_fees", NativeDecides: true, Profile: "bit", Covers: []string{"success-ack", "error-ack"}},
				{Name: "H_C19_shapes", NativeDecides: true, Profile: "bit", Quick: b("actionShapes", 1, "fwdShapes", 0, "actions", 2, "feeEntries", 0, "bytes", 2, "symBytes", 0, "metaKinds", 3), Thorough: b("actionShapes", 1, "fwdShapes", 0, "actions", 2, "feeEntries", 1, "bytes", 2, "symBytes", 0, "metaKinds", 3), Covers: []string{"success-ack", "error-ack"}},
				{Name: "H_C19_fwd_shapes", NativeDecides: true, Profile: "bit", Quick: b("actionShapes", 0, "fwdShapes", 1, "actions", 0, "feeEntries", 0, "bytes", 2, "symBytes", 0, "metaKinds", 3), Thorough: b("actionShapes", 0, "fwdShapes", 1, "actions", 0, "feeEntries", 0, "bytes", 33, "symBytes", 0, "metaKinds", 6), Covers: []string{"success-ack", "error-ack"}},
				{Name: "H_C19_admin", NativeDecides: true, Profile: "bit", Quick: b("steps", 2), Thorough: b("steps", 2), Covers: []string{"message-accepted", "message-refused", "discarded-transaction-served"}},
			}},
		{ID: "C20", Assumptions: []string{aSummaries, "strconv.Atoi/ParseInt/ParseUint, strings.Index are executed from their SSA bodies, not summarised", "channeltypes.IsValidChannelID is summarised as the byte predicate ^channel-[0-9]{1,20}$ with value <= 2^64-1 (ibc-go v8.6.1 ParseChannelSequence)"},
			Harnesses: []HarnessSpec{
				{Name: "H_C20_canon_cctp", Profile: "arith", Quick: b("strlen", 12), Thorough: b("strlen", 33), Covers: []string{"accepted", "rejected"}},
				{Name: "H_C20_canon_hyp", Profile: "arith", Quick: b("strlen", 12), Thorough: b("strlen", 33), Covers: []string{"accepted", "rejected"}},
				{Name: "H_C20_attr_cctp", Profile: "arith"},
				{Name: "H_C20_attr_hyp", Profile: "arith"},
				{Name: "H_C20_roundtrip_ibc", Profile: "bit", Quick: b("strlen", 12), Thorough: b("strlen", 33), Covers: []string{"valid", "invalid"}},
				{Name: "H_C20_roundtrip_cctp", Profile: "arith", Quick: b("strlen", 8), Thorough: b("strlen", 12), Covers: []string{"valid", "invalid"}},
				{Name: "H_C20_roundtrip_hyp", Profile: "arith", Quick: b("strlen", 8), Thorough: b("strlen", 12), Covers: []string{"valid", "invalid"}},
				{Name: "H_C20_roundtrip_internal", Profile: "bit", Quick: b("strlen", 12), Thorough: b("strlen", 33), Covers: []string{"valid", "invalid"}},
				{Name: "H_C20_distinct", Profile: "bit", Quick: b("strlen", 3), Thorough: b("strlen", 5), Covers: []string{"both-valid", "invalid"}},
				{Name: "H_C20_parse_sound", Profile: "arith", Quick: b("idlen", 8), Thorough: b("idlen", 12), Covers: []string{"parsed", "refused"}},
				{Name: "H_C20_entrypoints", Profile: "bit", Quick: b("strlen", 4), Thorough: b("strlen", 6), Covers: []string{"accepted", "rejected"}},
			}},
	}
}
