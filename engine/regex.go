package main

import (
	"fmt"
	"regexp"
	"regexp/syntax"
)

// Symbolic matching of Go regular expressions on bounded byte strings.
//
// The pattern (always concrete: a constant of the code under test) is compiled with the standard library's own
// regexp/syntax into its instruction program; the program is then simulated as an NFA over the string's symbolic bytes:
// alive[pc] is the Boolean term "a thread is at instruction pc before the byte at this position is read". The result
// is the term "some thread reaches Match" — exact for ASCII input. Where the input may contain a byte >= 0x80 and the
// program has a class that reaches beyond ASCII (negated classes, `.`), multi-byte runes would have to be decoded:
// that case ends the path unsupported (decided natively).

type regexObj struct {
	pat  string
	re   *regexp.Regexp
	prog *syntax.Prog
}

func compileRegex(pat string) (*regexObj, error) {
	re, err := regexp.Compile(pat)
	if err != nil {
		return nil, err
	}
	rs, err := syntax.Parse(pat, syntax.Perl)
	if err != nil {
		return nil, err
	}
	prog, err := syntax.Compile(rs.Simplify())
	if err != nil {
		return nil, err
	}
	return &regexObj{pat: pat, re: re, prog: prog}, nil
}

// beyondASCII: can some rune instruction match a rune >= 0x80?
func (r *regexObj) beyondASCII() bool {
	for _, in := range r.prog.Inst {
		switch in.Op {
		case syntax.InstRuneAny, syntax.InstRuneAnyNotNL:
			return true
		case syntax.InstRune, syntax.InstRune1:
			for _, x := range in.Rune {
				if x >= 0x80 {
					return true
				}
			}
		}
	}
	return false
}

// byteMatches: does the (ASCII) byte b match rune instruction in?
func byteMatches(in *syntax.Inst, b *Term) *Term {
	ascii := BVCmp("bvult", b, BVConstI(0x80, 8))
	switch in.Op {
	case syntax.InstRuneAny:
		return ascii
	case syntax.InstRuneAnyNotNL:
		return And(ascii, Not(Eq(b, BVConstI('\n', 8))))
	}
	fold := syntax.Flags(in.Arg)&syntax.FoldCase != 0
	rng := func(lo, hi rune) *Term {
		if lo > 0x7f {
			return False
		}
		if hi > 0x7f {
			hi = 0x7f
		}
		t := And(BVCmp("bvuge", b, BVConstI(int64(lo), 8)), BVCmp("bvule", b, BVConstI(int64(hi), 8)))
		if fold {
			// ASCII letters in the other case
			for c := lo; c <= hi; c++ {
				switch {
				case c >= 'a' && c <= 'z':
					t = Or(t, Eq(b, BVConstI(int64(c-32), 8)))
				case c >= 'A' && c <= 'Z':
					t = Or(t, Eq(b, BVConstI(int64(c+32), 8)))
				}
			}
		}
		return t
	}
	res := False
	if len(in.Rune) == 1 {
		res = rng(in.Rune[0], in.Rune[0])
	} else {
		for i := 0; i+1 < len(in.Rune); i += 2 {
			res = Or(res, rng(in.Rune[i], in.Rune[i+1]))
		}
	}
	return And(ascii, res)
}

// match builds the term "the regular expression matches somewhere in s" (MatchString semantics).
func (r *regexObj) match(s *Str) (*Term, error) {
	prog := r.prog
	n := len(s.B)
	isWord := func(b *Term) *Term {
		return Or(Or(And(BVCmp("bvuge", b, BVConstI('0', 8)), BVCmp("bvule", b, BVConstI('9', 8))), And(BVCmp("bvuge", b, BVConstI('a', 8)), BVCmp("bvule", b, BVConstI('z', 8)))),
			Or(And(BVCmp("bvuge", b, BVConstI('A', 8)), BVCmp("bvule", b, BVConstI('Z', 8))), Eq(b, BVConstI('_', 8))))
	}
	inStr := func(pos int) *Term { return BVCmp("bvult", BVConstI(int64(pos), 64), s.Len) }
	atEnd := func(pos int) *Term { return Eq(s.Len, BVConstI(int64(pos), 64)) }
	emptyCond := func(op syntax.EmptyOp, pos int) (*Term, error) {
		c := True
		if op&syntax.EmptyBeginText != 0 {
			c = And(c, BoolConst(pos == 0))
		}
		if op&syntax.EmptyEndText != 0 {
			c = And(c, atEnd(pos))
		}
		if op&syntax.EmptyBeginLine != 0 {
			bl := BoolConst(pos == 0)
			if pos > 0 {
				bl = Eq(s.at(pos-1), BVConstI('\n', 8))
			}
			c = And(c, bl)
		}
		if op&syntax.EmptyEndLine != 0 {
			el := atEnd(pos)
			if pos < n {
				el = Or(el, And(inStr(pos), Eq(s.at(pos), BVConstI('\n', 8))))
			}
			c = And(c, el)
		}
		if op&(syntax.EmptyWordBoundary|syntax.EmptyNoWordBoundary) != 0 {
			before, after := False, False
			if pos > 0 {
				before = isWord(s.at(pos - 1))
			}
			if pos < n {
				after = And(inStr(pos), isWord(s.at(pos)))
			}
			wb := Not(Eq(before, after))
			if op&syntax.EmptyWordBoundary != 0 {
				c = And(c, wb)
			}
			if op&syntax.EmptyNoWordBoundary != 0 {
				c = And(c, Not(wb))
			}
		}
		return c, nil
	}
	// closure: spread condition c from instruction pc through the non-consuming instructions, at position pos
	var add func(set []*Term, pc uint32, c *Term, pos int, onStack map[uint32]bool) error
	add = func(set []*Term, pc uint32, c *Term, pos int, onStack map[uint32]bool) error {
		if c.IsFalse() || onStack[pc] {
			return nil
		}
		in := &prog.Inst[pc]
		switch in.Op {
		case syntax.InstFail:
			return nil
		case syntax.InstAlt, syntax.InstAltMatch:
			onStack[pc] = true
			defer delete(onStack, pc)
			if err := add(set, in.Out, c, pos, onStack); err != nil {
				return err
			}
			return add(set, in.Arg, c, pos, onStack)
		case syntax.InstNop, syntax.InstCapture:
			onStack[pc] = true
			defer delete(onStack, pc)
			return add(set, in.Out, c, pos, onStack)
		case syntax.InstEmptyWidth:
			ec, err := emptyCond(syntax.EmptyOp(in.Arg), pos)
			if err != nil {
				return err
			}
			onStack[pc] = true
			defer delete(onStack, pc)
			return add(set, in.Out, And(c, ec), pos, onStack)
		default: // consuming instructions and Match stay in the set
			set[pc] = Or(set[pc], c)
			return nil
		}
	}
	newSet := func() []*Term {
		x := make([]*Term, len(prog.Inst))
		for i := range x {
			x[i] = False
		}
		return x
	}
	matched := False
	cur := newSet()
	for pos := 0; pos <= n; pos++ {
		// an unanchored search may start at every position inside the string (or at its end)
		startHere := True
		if pos > 0 {
			startHere = BVCmp("bvule", BVConstI(int64(pos), 64), s.Len)
		}
		if err := add(cur, uint32(prog.Start), startHere, pos, map[uint32]bool{}); err != nil {
			return nil, err
		}
		for pc := range prog.Inst {
			if prog.Inst[pc].Op == syntax.InstMatch {
				matched = Or(matched, cur[pc])
			}
		}
		if pos == n {
			break
		}
		next := newSet()
		b := s.at(pos)
		for pc := range prog.Inst {
			in := &prog.Inst[pc]
			if cur[pc].IsFalse() {
				continue
			}
			switch in.Op {
			case syntax.InstRune, syntax.InstRune1, syntax.InstRuneAny, syntax.InstRuneAnyNotNL:
				c := And(cur[pc], And(inStr(pos), byteMatches(in, b)))
				if err := add(next, in.Out, c, pos+1, map[uint32]bool{}); err != nil {
					return nil, err
				}
			}
		}
		cur = next
	}
	return matched, nil
}

func (r *regexObj) String() string { return fmt.Sprintf("regexp(%q)", r.pat) }
