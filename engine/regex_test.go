package main

import (
	"math/rand"
	"testing"
)

func TestRegexAgainstLibrary(t *testing.T) {
	pats := []string{`^(0|[1-9][0-9]{0,9})$`, `^[a-zA-Z][a-zA-Z0-9/:._-]{2,127}$`, `ab+c`, `^channel-[0-9]{1,20}$`, `(?i)^noble1[a-z0-9]+$`, `^\s*$`, `a|bc|^d`, `\bfoo\b`, `^[^/]+/[^/]+$`, `x*`, `^(ab)*$`, `[0-9]$`}
	alphabet := "ab01/ c-_.:Zd\nfoxNOBLE9"
	rng := rand.New(rand.NewSource(7))
	for _, p := range pats {
		r, err := compileRegex(p)
		if err != nil {
			t.Fatal(err)
		}
		for k := 0; k < 3000; k++ {
			n := rng.Intn(9)
			b := make([]byte, n)
			for i := range b {
				b[i] = alphabet[rng.Intn(len(alphabet))]
			}
			s := string(b)
			// a string with constant bytes but kept in the symbolic representation with padding beyond its length
			str := StrConst(s)
			for len(str.B) < 10 {
				str.B = append(str.B, BVConstI(0, 8))
			}
			m, err := r.match(str)
			if err != nil {
				t.Fatal(err)
			}
			if !m.IsConst() {
				t.Fatalf("pattern %q on %q: not folded to a constant: %s", p, s, expand(m, 4))
			}
			if m.IsTrue() != r.re.MatchString(s) {
				t.Fatalf("pattern %q on %q: model %v, library %v", p, s, m.IsTrue(), r.re.MatchString(s))
			}
		}
	}
}
