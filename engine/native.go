package main

import (
	"bufio"
	"bytes"
	"encoding/json"
	"fmt"
	"math/rand"
	"os"
	"os/exec"
	"path/filepath"
	"strings"
	"time"
)

// Native is the natively compiled harness package (go test -c -overlay) built from /repo's current tree.
type Native struct {
	dir       string
	bin       string
	BuildTime time.Duration
	Consts    map[string]string
}

func scratchDir() string {
	base := os.Getenv("GOSX_SCRATCH")
	if base == "" {
		base = filepath.Join(os.TempDir(), "gosx-scratch")
	}
	os.MkdirAll(base, 0o755)
	// scratch directories of runs that were killed before they could clean up (each holds a test binary of ~80 MB)
	if ents, err := os.ReadDir(base); err == nil {
		for _, e := range ents {
			if fi, err := e.Info(); err == nil && e.IsDir() && time.Since(fi.ModTime()) > 3*time.Hour {
				os.RemoveAll(filepath.Join(base, e.Name()))
			}
		}
	}
	d, err := os.MkdirTemp(base, "n")
	if err != nil {
		panic(err)
	}
	return d
}

func buildNative(mutate map[string]string) (*Native, error) {
	t0 := time.Now()
	dir := scratchDir()
	repl := harnessFiles(true)
	for k, v := range mutate {
		repl[k] = v
	}
	ob, _ := json.Marshal(map[string]map[string]string{"Replace": repl})
	os.WriteFile(dir+"/overlay.json", ob, 0o644)
	cmd := exec.Command("go", "test", "-vet=off", "-c", "-o", dir+"/h.test", "-overlay", dir+"/overlay.json", "./zzverif/h/")
	cmd.Dir = repoDir
	cmd.Env = cleanEnv()
	if out, err := cmd.CombinedOutput(); err != nil {
		os.RemoveAll(dir)
		return nil, fmt.Errorf("%v\n%s", err, out)
	}
	n := &Native{dir: dir, bin: dir + "/h.test", BuildTime: time.Since(t0)}
	// constants that need real cryptography / SDK configuration
	c := exec.Command(n.bin, "-test.run", "TestDumpConstants", "-test.count=1")
	out, err := c.CombinedOutput()
	if err != nil {
		n.Close()
		return nil, fmt.Errorf("dump constants: %v\n%s", err, out)
	}
	n.Consts = map[string]string{}
	for _, l := range strings.Split(string(out), "\n") {
		if strings.HasPrefix(l, "CONST ") {
			p := strings.SplitN(strings.TrimPrefix(l, "CONST "), "=", 2)
			if len(p) == 2 {
				n.Consts[p[0]] = p[1]
			}
		}
	}
	return n, nil
}

func (n *Native) Close() {
	if n != nil && n.dir != "" {
		os.RemoveAll(n.dir)
	}
}

func appendConfirmed(l []ConfirmedViolation, v Violation, nat string) []ConfirmedViolation {
	for _, c := range l {
		if c.V.Label == v.Label {
			return l
		}
	}
	return append(l, ConfirmedViolation{V: v, Native: nat})
}

type batchItem struct {
	Lenient bool           `json:"lenient,omitempty"`
	Seed    int64          `json:"seed,omitempty"`
	ID      int            `json:"id"`
	Harness string         `json:"harness"`
	Tier    string         `json:"tier"`
	Bounds  map[string]int `json:"bounds"`
	Witness []WDraw        `json:"witness"`
}

// runBatch replays the items in one native process (falling back to one process per item when the
// batch process dies, e.g. on a fatal runtime error) and returns the TRACE lines of each item.
func (n *Native) runBatch(items []batchItem) map[int][]string {
	out := map[int][]string{}
	if len(items) == 0 {
		return out
	}
	f := filepath.Join(n.dir, fmt.Sprintf("batch%d.json", rand.Int()))
	b, _ := json.Marshal(items)
	os.WriteFile(f, b, 0o644)
	defer os.Remove(f)
	c := exec.Command(n.bin, "-test.run", "TestReplayBatch", "-test.count=1", "-test.timeout=20m")
	c.Env = append(os.Environ(), "GOSX_BATCH="+f)
	var buf bytes.Buffer
	c.Stdout, c.Stderr = &buf, &buf
	c.Run()
	cur := -1
	done := map[int]bool{}
	sc := bufio.NewScanner(&buf)
	sc.Buffer(make([]byte, 1<<20), 1<<26)
	for sc.Scan() {
		l := sc.Text()
		switch {
		case strings.HasPrefix(l, "RUN "):
			fmt.Sscanf(l, "RUN %d", &cur)
			out[cur] = []string{}
		case strings.HasPrefix(l, "END "):
			done[cur] = true
			cur = -1
		case strings.HasPrefix(l, "TRACE ") && cur >= 0:
			out[cur] = append(out[cur], strings.TrimPrefix(l, "TRACE "))
		}
	}
	// items the batch did not finish (process died inside one): run the rest separately
	var rest []batchItem
	for _, it := range items {
		if !done[it.ID] {
			rest = append(rest, it)
		}
	}
	if len(rest) > 0 && len(rest) < len(items) {
		// the first unfinished item killed the process; mark it and continue with the others
		out[rest[0].ID] = append(out[rest[0].ID], "PANIC fatal: native process died")
		for k, v := range n.runBatch(rest[1:]) {
			out[k] = v
		}
	} else if len(rest) == len(items) {
		out[rest[0].ID] = append(out[rest[0].ID], "PANIC fatal: native process died: "+truncate(buf.String(), 400))
		if len(rest) > 1 {
			for k, v := range n.runBatch(rest[1:]) {
				out[k] = v
			}
		}
	}
	return out
}

// normalise a native trace into the engine's trace vocabulary
func normTrace(lines []string) (trace []string, failed []string, panicked string) {
	for _, l := range lines {
		switch {
		case strings.HasPrefix(l, "cover "):
			trace = append(trace, l)
		case strings.HasPrefix(l, "assert-ok "):
			trace = append(trace, "assert "+strings.TrimPrefix(l, "assert-ok "))
		case strings.HasPrefix(l, "assert-FAILED "):
			lab := strings.TrimPrefix(l, "assert-FAILED ")
			trace = append(trace, "assert "+lab)
			failed = append(failed, lab)
		case strings.HasPrefix(l, "observe "):
			trace = append(trace, l)
		case strings.HasPrefix(l, "PANIC"):
			panicked = l
		case strings.HasPrefix(l, "DIVERGED"):
			trace = append(trace, l)
		case strings.HasPrefix(l, "assume-false"):
			trace = append(trace, "assume-false")
		}
	}
	return
}

// confirmAndValidate replays (a) every distinct symbolic violation (up to 3 witnesses per label) and (b) a sample of
// completed paths natively, against the real code, and fills res.Confirmed / Unconfirmed / TracesValidated.
func confirmAndValidate(n *Native, res *HarnessResult, tier string, seed int64) {
	var items []batchItem
	type ref struct {
		viol *Violation
		pass *PathRec
	}
	refs := map[int]ref{}
	perLabel := map[string]int{}
	id := 0
	for i := range res.Violations {
		v := &res.Violations[i]
		if perLabel[v.Label] >= 3 {
			continue
		}
		perLabel[v.Label]++
		items = append(items, batchItem{ID: id, Harness: res.Spec.Name, Tier: tier, Bounds: res.Bounds, Witness: v.Witness})
		refs[id] = ref{viol: v}
		id++
	}
	max := 400
	if tier == "thorough" {
		max = 3000
	}
	idx := rand.New(rand.NewSource(seed)).Perm(len(res.Passes))
	if len(idx) > max {
		idx = idx[:max]
	}
	for _, k := range idx {
		items = append(items, batchItem{ID: id, Harness: res.Spec.Name, Tier: tier, Bounds: res.Bounds, Witness: res.Passes[k].Witness})
		refs[id] = ref{pass: &res.Passes[k]}
		id++
	}
	// concolic fallback: paths the engine could not encode to the end are replayed natively on a model of the path
	// condition up to that point (draws beyond it take default values); a failing native run is a real counterexample
	nUns := len(res.Unsupported)
	// (when nothing could be encoded to the end — a change put an un-modelled library call on every path — the native
	// replays are all there is: many more of them are run, the drawn decisions of each path being part of its witness)
	capUns := 200
	if res.Outcomes["ok"] == 0 {
		capUns = 1500
	}
	if nUns > capUns {
		nUns = capUns
	}
	unsFrom := id
	// per unsupported path: one completion with default values and several pseudo-random completions
	const completions = 8
	for k := 0; k < nUns; k++ {
		for c := 0; c < completions; c++ {
			sd := int64(0)
			if c > 0 {
				sd = seed*1000003 + int64(k)*131 + int64(c)
			}
			items = append(items, batchItem{ID: id, Harness: res.Spec.Name, Tier: tier, Bounds: res.Bounds, Witness: res.Unsupported[k].Witness, Lenient: true, Seed: sd})
			id++
		}
	}
	got := n.runBatch(items)
	for k := unsFrom; k < id; k++ {
		res.ConcolicRuns++
		u := res.Unsupported[(k-unsFrom)/completions]
		_, failed, panicked := normTrace(got[k])
		for _, f := range failed {
			v := Violation{Label: f, Detail: "found by native replay of a solver-generated input on a path the engine could not encode to the end (" + u.Msg + ")", Witness: u.Witness}
			res.Confirmed = appendConfirmed(res.Confirmed, v, "assert-FAILED "+f)
		}
		if panicked != "" && !strings.Contains(panicked, "fatal: native process died") {
			v := Violation{Label: "panic: (native) " + truncate(panicked, 120), Detail: "native replay of a solver-generated input panicked on a path the engine could not encode (" + u.Msg + ")", Witness: u.Witness, IsPanic: true}
			res.Confirmed = appendConfirmed(res.Confirmed, v, panicked)
		}
	}
	id = unsFrom
	confirmedLabel := map[string]bool{}
	var pending []*Violation
	for k := 0; k < id; k++ {
		r := refs[k]
		trace, failed, panicked := normTrace(got[k])
		if r.viol != nil {
			ok, nat := false, ""
			if r.viol.IsPanic {
				if panicked != "" {
					ok, nat = true, panicked
				}
			} else {
				for _, f := range failed {
					if f == r.viol.Label {
						ok, nat = true, "assert-FAILED "+f
					}
				}
			}
			if ok {
				if !confirmedLabel[r.viol.Label] {
					confirmedLabel[r.viol.Label] = true
					res.Confirmed = append(res.Confirmed, ConfirmedViolation{V: *r.viol, Native: nat})
				}
			} else {
				pending = append(pending, r.viol)
			}
			continue
		}
		// passing path: the native trace must equal the symbolic one and must not panic
		want := strings.Join(r.pass.Trace, "|")
		have := strings.Join(trace, "|")
		if panicked == "" && want == have && len(failed) == 0 {
			res.TracesValidated++
		} else if res.Spec.NativeDecides && panicked == "" && want == have && len(failed) > 0 {
			// (C19) the two natively executed runs of the same history differ although the engine's model of run-to-run
			// variation did not show it: a real failing execution of the real code on a solver-generated input
			if !confirmedLabel[failed[0]] {
				confirmedLabel[failed[0]] = true
				v := Violation{Label: failed[0], Detail: "found by the native two-run comparison on a solver-generated input (the variation is outside what the engine models symbolically)", Witness: r.pass.Witness}
				res.Confirmed = append(res.Confirmed, ConfirmedViolation{V: v, Native: "assert-FAILED " + failed[0]})
			}
		} else {
			res.TraceMismatches = append(res.TraceMismatches, fmt.Sprintf("witness=%s\n      symbolic: %s\n      native:   %s %s", witnessString(r.pass.Witness), want, have, panicked))
		}
	}
	seenU := map[string]bool{}
	for _, v := range pending {
		if !confirmedLabel[v.Label] && !seenU[v.Label] {
			seenU[v.Label] = true
			res.Unconfirmed = append(res.Unconfirmed, *v)
		}
	}
}
