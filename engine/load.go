package main

import (
	"fmt"
	"os"
	"path/filepath"
	"strings"

	"golang.org/x/tools/go/packages"
	"golang.org/x/tools/go/ssa"
	"golang.org/x/tools/go/ssa/ssautil"
)

type Loaded struct {
	prog  *ssa.Program
	hpkg  *ssa.Package // the harness package (zzverif/h)
	pkgs  []*ssa.Package
	files int
}

// harnessFiles returns virtual path (under /repo/zzverif) -> real path (under /verif/harness).
func harnessFiles(withTests bool) map[string]string {
	out := map[string]string{}
	for _, sub := range []string{"verif", "h"} {
		ents, err := os.ReadDir(filepath.Join(verifDir, "harness", sub))
		if err != nil {
			panic(err)
		}
		for _, e := range ents {
			n := e.Name()
			if !strings.HasSuffix(n, ".go") {
				continue
			}
			if strings.HasSuffix(n, "_test.go") && !withTests {
				continue
			}
			out[filepath.Join(repoDir, "zzverif", sub, n)] = filepath.Join(verifDir, "harness", sub, n)
		}
	}
	return out
}

// loadProgram type-checks /repo's current working tree plus the harness overlay and builds SSA for everything.
func loadProgram(mutate map[string]string) (*Loaded, error) {
	overlay := map[string][]byte{}
	for virt, real := range harnessFiles(false) {
		b, err := os.ReadFile(real)
		if err != nil {
			return nil, err
		}
		overlay[virt] = b
	}
	for virt, real := range mutate {
		b, err := os.ReadFile(real)
		if err != nil {
			return nil, err
		}
		overlay[virt] = b
	}
	cfg := &packages.Config{
		Mode:    packages.LoadSyntax | packages.NeedDeps | packages.NeedModule,
		Dir:     repoDir,
		Env:     cleanEnv(),
		Overlay: overlay,
	}
	pats := []string{"./zzverif/h", "./types/...", "./controller/...", "./keeper/...", "./entrypoint", "strconv", "strings", "errors",
		"github.com/cosmos/ibc-go/v8/modules/apps/transfer/types", "github.com/cosmos/ibc-go/v8/modules/core/24-host"}
	pkgs, err := packages.Load(cfg, pats...)
	if err != nil {
		return nil, err
	}
	var errs []string
	packages.Visit(pkgs, nil, func(p *packages.Package) {
		for _, e := range p.Errors {
			errs = append(errs, fmt.Sprintf("%s: %v", p.PkgPath, e))
		}
	})
	if len(errs) > 0 {
		if len(errs) > 8 {
			errs = errs[:8]
		}
		return nil, fmt.Errorf("package errors:\n  %s", strings.Join(errs, "\n  "))
	}
	prog, spkgs := ssautil.AllPackages(pkgs, ssa.InstantiateGenerics)
	prog.Build()
	ld := &Loaded{prog: prog, pkgs: spkgs}
	for _, p := range spkgs {
		if p != nil && p.Pkg.Path() == orb+"/zzverif/h" {
			ld.hpkg = p
		}
	}
	if ld.hpkg == nil {
		return nil, fmt.Errorf("harness package not found")
	}
	return ld, nil
}

// cleanEnv: the repo needs the go1.24 toolchain via GOTOOLCHAIN=auto from the module cache; GOFLAGS=-mod=mod,
// GOTOOLCHAIN=local and GOSUMDB=off (set for building this tool) all break `go list` in /repo's workspace.
func cleanEnv() []string {
	var out []string
	for _, kv := range os.Environ() {
		k := kv
		if i := strings.IndexByte(kv, '='); i >= 0 {
			k = kv[:i]
		}
		switch k {
		case "GOFLAGS", "GOTOOLCHAIN", "GOSUMDB", "GOPROXY":
			continue
		}
		out = append(out, kv)
	}
	return append(out, "GOPROXY=off", "GOFLAGS=", "GOTOOLCHAIN=auto")
}
