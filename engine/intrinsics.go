package main

import (
	"unicode"
	"encoding/hex"
	"encoding/json"
	"sort"
	"crypto/sha256"
	"fmt"
	"regexp"
	"go/types"
	"math/big"
	"strconv"
	"strings"

	"golang.org/x/tools/go/ssa"
)

type intrinsic = func(st *State, fr *frame, args []value, cc *ssa.CallCommon) value

func newErr(st *State, tag string, chain ...value) value {
	st.opaqueN++
	return iface{t: errObjType, v: &opaque{tag: tag, id: st.opaqueN, info: chain}}
}

// newErrIs: an error that errors.Is-matches the named foreign sentinel (not needed by orbiter today).
func newErrIs(st *State, tag, sentinel string) value { return newErr(st, tag) }

func errChain(e value) []value {
	if i, ok := e.(iface); ok && i.t == errObjType {
		if c, ok := i.v.(*opaque).info.([]value); ok {
			return c
		}
	}
	return nil
}

func makeIntrinsics() map[string]intrinsic {
	m := map[string]intrinsic{}
	V := orb + "/zzverif/verif."
	m[V+"String"] = func(st *State, fr *frame, a []value, cc *ssa.CallCommon) value {
		label, _ := a[0].(*Str).Concrete()
		n, _ := asConcreteInt(a[1])
		s := st.newSymString(label, n)
		st.draws = append(st.draws, drawRec{label, "string", append([]*Term{s.Len}, s.B...)})
		return s
	}
	m[V+"Bytes"] = func(st *State, fr *frame, a []value, cc *ssa.CallCommon) value {
		label, _ := a[0].(*Str).Concrete()
		n, _ := asConcreteInt(a[1])
		s := st.newSymString(label, n)
		st.draws = append(st.draws, drawRec{label, "string", append([]*Term{s.Len}, s.B...)})
		return s
	}
	m["(github.com/bcp-innovations/hyperlane-cosmos/util.HexAddress).String--unused"] = func(st *State, fr *frame, a []value, cc *ssa.CallCommon) value {
		// "0x" + lower-case hex of the 32 bytes, computed on the byte terms
		arr := a[0].(array)
		out := &Str{Len: BVConstI(int64(2+2*len(arr)), 64), B: []*Term{BVConstI('0', 8), BVConstI('x', 8)}}
		hexc := func(n *Term) *Term {
			return Ite(BVCmp("bvult", n, BVConstI(10, 8)), BVBin("bvadd", n, BVConstI('0', 8)), BVBin("bvadd", n, BVConstI('a'-10, 8)))
		}
		for _, b := range arr {
			t := b.(*Term)
			out.B = append(out.B, hexc(BVBin("bvlshr", t, BVConstI(4, 8))), hexc(BVBin("bvand", t, BVConstI(15, 8))))
		}
		return out
	}
	m["encoding/hex.DecodeString"] = func(st *State, fr *frame, a []value, cc *ssa.CallCommon) value {
		in := a[0].(*Str)
		if cs, ok := in.Concrete(); ok && in.Blob == nil {
			b, err := hex.DecodeString(cs)
			if err != nil {
				return tuple{[]value(nil), newErr(st, "hex")}
			}
			out := make([]value, len(b))
			for i := range b {
				out[i] = BVConstI(int64(b[i]), 8)
			}
			return tuple{out, iface{}}
		}
		panic(pathEnd{kind: "unsupported", msg: "hex.DecodeString on a symbolic string"})
	}
	m[V+"Bound"] = func(st *State, fr *frame, a []value, cc *ssa.CallCommon) value {
		name, _ := a[0].(*Str).Concrete()
		n, ok := st.e.bounds[name]
		if !ok {
			panic(fmt.Sprintf("harness asks for bound %q which its spec does not define", name))
		}
		return BVConstI(int64(n), 64)
	}

	// ---- Z: unbounded specification integers (SMT Int) ------------------------------------------------
	zt := func(v value) *Term { return v.(*zV).t }
	m[V+"ZOf"] = func(st *State, fr *frame, a []value, cc *ssa.CallCommon) value {
		b := a[0].(*bigV)
		if b.isNil {
			panic(pathEnd{kind: "panic", msg: "verif.ZOf of a nil math.Int"})
		}
		return &zV{b.v}
	}
	m[V+"ZInt"] = func(st *State, fr *frame, a []value, cc *ssa.CallCommon) value {
		t := a[0].(*Term)
		if t.IsConst() {
			return &zV{IntConst(t.Signed())}
		}
		// signed 64-bit to Int
		n := BV2Nat(t)
		return &zV{Ite(BVCmp("bvslt", t, BVConstI(0, 64)), IntBin("-", n, IntConst(new(big.Int).Lsh(big.NewInt(1), 64))), n)}
	}
	m[V+"ZU64"] = func(st *State, fr *frame, a []value, cc *ssa.CallCommon) value {
		t := a[0].(*Term)
		if t.Op == "zext" {
			t = t.Args[0]
		}
		return &zV{BV2Nat(t)}
	}
	m[V+"ZAdd"] = func(st *State, fr *frame, a []value, cc *ssa.CallCommon) value { return &zV{IntBin("+", zt(a[0]), zt(a[1]))} }
	m[V+"ZSub"] = func(st *State, fr *frame, a []value, cc *ssa.CallCommon) value { return &zV{IntBin("-", zt(a[0]), zt(a[1]))} }
	m[V+"ZMul"] = func(st *State, fr *frame, a []value, cc *ssa.CallCommon) value { return &zV{IntBin("*", zt(a[0]), zt(a[1]))} }
	m[V+"ZLt"] = func(st *State, fr *frame, a []value, cc *ssa.CallCommon) value { return IntCmp("<", zt(a[0]), zt(a[1])) }
	m[V+"ZLe"] = func(st *State, fr *frame, a []value, cc *ssa.CallCommon) value { return IntCmp("<=", zt(a[0]), zt(a[1])) }
	m[V+"ZEq"] = func(st *State, fr *frame, a []value, cc *ssa.CallCommon) value { return Eq(zt(a[0]), zt(a[1])) }
	m[V+"ZPow2"] = func(st *State, fr *frame, a []value, cc *ssa.CallCommon) value {
		n, _ := asConcreteInt(a[0])
		return &zV{IntConst(new(big.Int).Lsh(big.NewInt(1), uint(n)))}
	}
	m[V+"ZFloorDiv"] = func(st *State, fr *frame, a []value, cc *ssa.CallCommon) value {
		k, ok := asConcreteInt(a[1])
		if !ok || k <= 0 {
			panic("ZFloorDiv needs a positive constant divisor")
		}
		x := zt(a[0])
		if x.IsConst() {
			q, _ := new(big.Int).DivMod(x.C, big.NewInt(int64(k)), new(big.Int))
			return &zV{IntConst(q)}
		}
		return &zV{mk("div", SInt, x, IntConst(big.NewInt(int64(k))))}
	}
	m[V+"Uint64"] = func(st *State, fr *frame, a []value, cc *ssa.CallCommon) value {
		label, _ := a[0].(*Str).Concrete()
		x := st.freshVar(label, BV(64))
		st.draws = append(st.draws, drawRec{label, "uint64", []*Term{x}})
		return x
	}
	m[V+"ZeroBytes"] = func(st *State, fr *frame, a []value, cc *ssa.CallCommon) value {
		label, _ := a[0].(*Str).Concrete()
		n, _ := asConcreteInt(a[1])
		l := st.freshVar(label+"_len", BV(64))
		st.assume(BVCmp("bvule", l, BVConstI(int64(n), 64)))
		st.draws = append(st.draws, drawRec{label, "len", []*Term{l}})
		return &Str{Len: l}
	}
	m[V+"Atomically"] = func(st *State, fr *frame, a []value, cc *ssa.CallCommon) value {
		snap := st.snapshotColls()
		cl := a[1].(*closure)
		r := st.callFunction(fr, cl.Fn, append([]value{a[0]}, cl.Env...), nil)
		if e, ok := r.(iface); ok && e.t != nil {
			st.colls = snap
		}
		return r
	}
	// registers a service's request types as sdk.Msg by reflection over the service descriptor: the same types orbiter
	// registers explicitly one line earlier
	m["github.com/cosmos/cosmos-sdk/types/msgservice.RegisterMsgServiceDesc"] = func(st *State, fr *frame, a []value, cc *ssa.CallCommon) value { return nil }
	// ---- regexp: patterns are constants of the code; matching is simulated symbolically (regex.go) -------------------
	regexOf := func(v value) *regexObj {
		for {
			switch x := v.(type) {
			case *value:
				if x == nil {
					panic(pathEnd{kind: "panic", msg: "method call on a nil *regexp.Regexp"})
				}
				v = *x
				continue
			case *opaque:
				if r, ok := x.info.(*regexObj); ok {
					return r
				}
			}
			panic(pathEnd{kind: "unsupported", msg: "regexp object not created by Compile / MustCompile"})
		}
	}
	mkRegex := func(st *State, a []value, must bool) value {
		pat, ok := a[0].(*Str).Concrete()
		if !ok {
			panic(pathEnd{kind: "unsupported", msg: "regexp with a symbolic pattern"})
		}
		r, err := compileRegex(pat)
		if err != nil {
			if must {
				panic(pathEnd{kind: "panic", msg: "regexp.MustCompile: " + err.Error()})
			}
			return tuple{(*value)(nil), newErr(st, "regexp")}
		}
		p := new(value)
		*p = &opaque{tag: "regexp", info: r}
		if must {
			return p
		}
		return tuple{p, iface{}}
	}
	m["regexp.MustCompile"] = func(st *State, fr *frame, a []value, cc *ssa.CallCommon) value { return mkRegex(st, a, true) }
	m["regexp.Compile"] = func(st *State, fr *frame, a []value, cc *ssa.CallCommon) value { return mkRegex(st, a, false) }
	regexMatch := func(st *State, r *regexObj, in *Str) *Term {
		if in.Blob != nil {
			panic(pathEnd{kind: "unsupported", msg: "regexp on an abstract string"})
		}
		if cs, ok := in.Concrete(); ok {
			return BoolConst(r.re.MatchString(cs))
		}
		if r.beyondASCII() {
			nonASCII := False
			for i, b := range in.B {
				nonASCII = Or(nonASCII, And(BVCmp("bvuge", b, BVConstI(0x80, 8)), BVCmp("bvult", BVConstI(int64(i), 64), in.Len)))
			}
			if st.decide(nonASCII) {
				panic(pathEnd{kind: "unsupported", msg: "regexp with classes beyond ASCII on a string with multi-byte runes"})
			}
		}
		t, err := r.match(in)
		if err != nil {
			panic(pathEnd{kind: "unsupported", msg: "regexp: " + err.Error()})
		}
		return t
	}
	m["(*regexp.Regexp).MatchString"] = func(st *State, fr *frame, a []value, cc *ssa.CallCommon) value {
		return regexMatch(st, regexOf(a[0]), a[1].(*Str))
	}
	m["(*regexp.Regexp).Match"] = func(st *State, fr *frame, a []value, cc *ssa.CallCommon) value {
		return regexMatch(st, regexOf(a[0]), asStr(a[1]))
	}
	m["regexp.MatchString"] = func(st *State, fr *frame, a []value, cc *ssa.CallCommon) value {
		pat, ok := a[0].(*Str).Concrete()
		if !ok {
			panic(pathEnd{kind: "unsupported", msg: "regexp with a symbolic pattern"})
		}
		r, err := compileRegex(pat)
		if err != nil {
			return tuple{False, newErr(st, "regexp")}
		}
		return tuple{regexMatch(st, r, a[1].(*Str)), iface{}}
	}
	m["(*regexp.Regexp).String"] = func(st *State, fr *frame, a []value, cc *ssa.CallCommon) value { return StrConst(regexOf(a[0]).pat) }
	// side store of the harness (bank model): part of the environment's collections, hence snapshotted / branched with them
	sideStore := func(st *State, ctx value) *collStore {
		old := st.curEnv
		st.curEnv = envOf(ctx)
		c := st.coll("verif-side")
		st.curEnv = old
		return c
	}
	m[V+"SideGet"] = func(st *State, fr *frame, a []value, cc *ssa.CallCommon) value {
		key, ok := a[1].(*Str).Concrete()
		if !ok {
			panic(pathEnd{kind: "unsupported", msg: "side store with a symbolic key"})
		}
		c := sideStore(st, a[0])
		for i, k := range c.keys {
			if ks, _ := k.(*Str).Concrete(); ks == key {
				return c.vals[i]
			}
		}
		return &bigV{v: IntConst(big.NewInt(0))}
	}
	m[V+"SideSet"] = func(st *State, fr *frame, a []value, cc *ssa.CallCommon) value {
		key, ok := a[1].(*Str).Concrete()
		if !ok {
			panic(pathEnd{kind: "unsupported", msg: "side store with a symbolic key"})
		}
		v := a[2].(*bigV)
		if v.isNil {
			panic(pathEnd{kind: "panic", msg: "side store: nil integer"})
		}
		c := sideStore(st, a[0])
		for i, k := range c.keys {
			if ks, _ := k.(*Str).Concrete(); ks == key {
				c.vals[i] = v
				return nil
			}
		}
		c.keys, c.orig, c.vals = append(c.keys, StrConst(key)), append(c.orig, nil), append(c.vals, v)
		return nil
	}
	m["strings.Repeat"] = func(st *State, fr *frame, a []value, cc *ssa.CallCommon) value {
		s, ok1 := a[0].(*Str).Concrete()
		n, ok2 := asConcreteInt(a[1])
		if !ok1 || !ok2 || a[0].(*Str).Blob != nil {
			panic(pathEnd{kind: "unsupported", msg: "strings.Repeat on symbolic arguments"})
		}
		if n < 0 {
			panic(pathEnd{kind: "panic", msg: "strings: negative Repeat count"})
		}
		return StrConst(strings.Repeat(s, n))
	}
	// ---- unicode predicates on a (possibly symbolic) rune: the standard library's own range tables as a disjunction ----
	tableTerm := func(tab *unicode.RangeTable, r *Term) *Term {
		res := False
		rng := func(lo, hi, stride uint32) {
			t := And(BVCmp("bvuge", r, BVConstI(int64(lo), 32)), BVCmp("bvule", r, BVConstI(int64(hi), 32)))
			if stride > 1 {
				t = And(t, Eq(BVBin("bvurem", BVBin("bvsub", r, BVConstI(int64(lo), 32)), BVConstI(int64(stride), 32)), BVConstI(0, 32)))
			}
			res = Or(res, t)
		}
		for _, x := range tab.R16 {
			rng(uint32(x.Lo), uint32(x.Hi), uint32(x.Stride))
		}
		for _, x := range tab.R32 {
			rng(x.Lo, x.Hi, x.Stride)
		}
		return res
	}
	uni := func(name string, concrete func(rune) bool, tab *unicode.RangeTable) {
		m["unicode."+name] = func(st *State, fr *frame, a []value, cc *ssa.CallCommon) value {
			r := a[0].(*Term)
			if r.IsConst() {
				return BoolConst(concrete(rune(r.Signed().Int64())))
			}
			return tableTerm(tab, r)
		}
	}
	uni("IsDigit", unicode.IsDigit, unicode.Digit)
	uni("IsNumber", unicode.IsNumber, unicode.Number)
	uni("IsLetter", unicode.IsLetter, unicode.Letter)
	uni("IsUpper", unicode.IsUpper, unicode.Upper)
	uni("IsLower", unicode.IsLower, unicode.Lower)
	uni("IsSpace", unicode.IsSpace, unicode.White_Space)
	uni("IsPunct", unicode.IsPunct, unicode.Punct)
	m[V+"Aborts"] = func(st *State, fr *frame, a []value, cc *ssa.CallCommon) value {
		cl := a[0].(*closure)
		aborted := false
		func() {
			defer func() {
				if x := recover(); x != nil {
					if pe, ok := x.(pathEnd); ok && pe.kind == "panic" {
						if iv, ok := pe.val.(iface); ok && iv.t != nil && strings.HasSuffix(iv.t.String(), "zzverif/verif.Injected") {
							aborted = true
							return
						}
					}
					panic(x)
				}
			}()
			st.callFunction(fr, cl.Fn, cl.Env, nil)
		}()
		return BoolConst(aborted)
	}
	m[V+"AtomicallyOrAbort"] = func(st *State, fr *frame, a []value, cc *ssa.CallCommon) value {
		snap := st.snapshotColls()
		cl := a[1].(*closure)
		var r value
		aborted := false
		func() {
			defer func() {
				if x := recover(); x != nil {
					if pe, ok := x.(pathEnd); ok && pe.kind == "panic" {
						aborted = true // baseapp recovers the panic and fails the transaction
						return
					}
					panic(x)
				}
			}()
			r = st.callFunction(fr, cl.Fn, append([]value{a[0]}, cl.Env...), nil)
		}()
		if aborted {
			st.colls = snap
			return tuple{iface{}, True}
		}
		if e, ok := r.(iface); ok && e.t != nil {
			st.colls = snap
		}
		return tuple{r, False}
	}
	m["google.golang.org/grpc/status.Error"] = func(st *State, fr *frame, a []value, cc *ssa.CallCommon) value { return newErr(st, "grpc-status") }
	m["google.golang.org/grpc/status.Errorf"] = func(st *State, fr *frame, a []value, cc *ssa.CallCommon) value { return newErr(st, "grpc-status") }
	m[V+"StateDigest"] = func(st *State, fr *frame, a []value, cc *ssa.CallCommon) value {
		var names []string
		pre := fmt.Sprintf("%d/", envOf(a[0]))
		for n := range st.colls {
			if strings.HasPrefix(n, pre) && !strings.HasSuffix(n, "/verif-side") {
				names = append(names, n)
			}
		}
		sort.Strings(names)
		var sb strings.Builder
		for _, n := range names {
			c := st.colls[n]
			if len(c.keys) == 0 {
				continue
			}
			// order-insensitive: sort the rendered entries
			var ents []string
			for i := range c.keys {
				ents = append(ents, valString(c.keys[i])+"="+valString(c.vals[i]))
			}
			sort.Strings(ents)
			sb.WriteString(n + "{" + strings.Join(ents, ";") + "}")
		}
		return StrConst(sb.String())
	}
	m["strings.EqualFold"] = func(st *State, fr *frame, a []value, cc *ssa.CallCommon) value {
		x, y := a[0].(*Str), a[1].(*Str)
		if x.Blob != nil || y.Blob != nil {
			panic(pathEnd{kind: "unsupported", msg: "strings.EqualFold on an abstract string"})
		}
		// non-ASCII bytes fold by Unicode simple case folding (e.g. the Kelvin sign): not summarised
		nonASCII := False
		for _, s := range []*Str{x, y} {
			for i, b := range s.B {
				nonASCII = Or(nonASCII, And(BVCmp("bvuge", b, BVConstI(0x80, 8)), BVCmp("bvult", BVConstI(int64(i), 64), s.Len)))
			}
		}
		if st.decide(nonASCII) {
			panic(pathEnd{kind: "unsupported", msg: "strings.EqualFold with non-ASCII bytes (Unicode case folding is not summarised)"})
		}
		lower := func(b *Term) *Term {
			up := And(BVCmp("bvuge", b, BVConstI('A', 8)), BVCmp("bvule", b, BVConstI('Z', 8)))
			return Ite(up, BVBin("bvadd", b, BVConstI(32, 8)), b)
		}
		r := Eq(x.Len, y.Len)
		n := len(x.B)
		if len(y.B) < n {
			n = len(y.B)
		}
		for i := 0; i < n; i++ {
			in := BVCmp("bvult", BVConstI(int64(i), 64), x.Len)
			r = And(r, Or(Not(in), Eq(lower(x.B[i]), lower(y.B[i]))))
		}
		// a longer string cannot be equal unless its length says so (bytes beyond len are padding)
		return r
	}
	// ---- sync.Map as a plain map keyed by interface values (single-threaded execution, E5) ---------------------
	syncMap := func(st *State, recv value) *mapV {
		p, ok := recv.(*value)
		if !ok || p == nil {
			panic(pathEnd{kind: "panic", msg: "sync.Map method on a nil pointer"})
		}
		if st.syncMaps == nil {
			st.syncMaps = map[*value]*mapV{}
		}
		if st.syncMaps[p] == nil {
			st.syncMaps[p] = &mapV{}
		}
		return st.syncMaps[p]
	}
	smFind := func(st *State, m *mapV, key value) int {
		for i, k := range m.keys {
			if st.decide(st.eq(k, key)) {
				return i
			}
		}
		return -1
	}
	m["(*sync.Map).Load"] = func(st *State, fr *frame, a []value, cc *ssa.CallCommon) value {
		mp := syncMap(st, a[0])
		if i := smFind(st, mp, a[1]); i >= 0 {
			return tuple{mp.vals[i], True}
		}
		return tuple{iface{}, False}
	}
	m["(*sync.Map).Store"] = func(st *State, fr *frame, a []value, cc *ssa.CallCommon) value {
		mp := syncMap(st, a[0])
		if i := smFind(st, mp, a[1]); i >= 0 {
			mp.vals[i] = a[2]
		} else {
			mp.keys, mp.vals, mp.orig = append(mp.keys, a[1]), append(mp.vals, a[2]), append(mp.orig, nil)
		}
		return nil
	}
	m["(*sync.Map).LoadOrStore"] = func(st *State, fr *frame, a []value, cc *ssa.CallCommon) value {
		mp := syncMap(st, a[0])
		if i := smFind(st, mp, a[1]); i >= 0 {
			return tuple{mp.vals[i], True}
		}
		mp.keys, mp.vals, mp.orig = append(mp.keys, a[1]), append(mp.vals, a[2]), append(mp.orig, nil)
		return tuple{a[2], False}
	}
	smDelete := func(st *State, mp *mapV, key value) (value, bool) {
		if i := smFind(st, mp, key); i >= 0 {
			v := mp.vals[i]
			mp.keys = append(mp.keys[:i:i], mp.keys[i+1:]...)
			mp.vals = append(mp.vals[:i:i], mp.vals[i+1:]...)
			mp.orig = append(mp.orig[:i:i], mp.orig[i+1:]...)
			return v, true
		}
		return iface{}, false
	}
	m["(*sync.Map).Delete"] = func(st *State, fr *frame, a []value, cc *ssa.CallCommon) value {
		smDelete(st, syncMap(st, a[0]), a[1])
		return nil
	}
	m["(*sync.Map).LoadAndDelete"] = func(st *State, fr *frame, a []value, cc *ssa.CallCommon) value {
		v, ok := smDelete(st, syncMap(st, a[0]), a[1])
		return tuple{v, BoolConst(ok)}
	}
	m["(*sync.Map).Clear"] = func(st *State, fr *frame, a []value, cc *ssa.CallCommon) value {
		mp := syncMap(st, a[0])
		mp.keys, mp.vals, mp.orig = nil, nil, nil
		return nil
	}
	// ---- sync/atomic: single-threaded execution (E5), so every atomic operation is the plain one ------------------
	// typed cells (atomic.Pointer[T], atomic.Value) hide their content behind unsafe.Pointer: kept in a side table per path
	atomCell := func(st *State, recv value) *value {
		p, ok := recv.(*value)
		if !ok || p == nil {
			panic(pathEnd{kind: "panic", msg: "sync/atomic method on a nil pointer"})
		}
		if st.atomCells == nil {
			st.atomCells = map[*value]*value{}
		}
		if st.atomCells[p] == nil {
			st.atomCells[p] = new(value)
		}
		return st.atomCells[p]
	}
	resZero := func(st *State) value { return zero(st.curFn.Signature.Results().At(0).Type()) }
	m["(*sync/atomic.Pointer[T]).Load"] = func(st *State, fr *frame, a []value, cc *ssa.CallCommon) value {
		c := atomCell(st, a[0])
		if *c == nil {
			return resZero(st)
		}
		return *c
	}
	m["(*sync/atomic.Pointer[T]).Store"] = func(st *State, fr *frame, a []value, cc *ssa.CallCommon) value {
		*atomCell(st, a[0]) = a[1]
		return nil
	}
	m["(*sync/atomic.Pointer[T]).Swap"] = func(st *State, fr *frame, a []value, cc *ssa.CallCommon) value {
		c := atomCell(st, a[0])
		old := *c
		if old == nil {
			old = resZero(st)
		}
		*c = a[1]
		return old
	}
	m["(*sync/atomic.Pointer[T]).CompareAndSwap"] = func(st *State, fr *frame, a []value, cc *ssa.CallCommon) value {
		c := atomCell(st, a[0])
		cur := *c
		if cur == nil {
			cur = zero(st.curFn.Signature.Params().At(0).Type())
		}
		if st.decide(st.eq(cur, a[1])) {
			*c = a[2]
			return True
		}
		return False
	}
	m["(*sync/atomic.Value).Load"] = func(st *State, fr *frame, a []value, cc *ssa.CallCommon) value {
		c := atomCell(st, a[0])
		if *c == nil {
			return iface{}
		}
		return *c
	}
	m["(*sync/atomic.Value).Store"] = func(st *State, fr *frame, a []value, cc *ssa.CallCommon) value {
		if i, ok := a[1].(iface); ok && i.t == nil {
			panic(pathEnd{kind: "panic", msg: "sync/atomic: store of nil value into Value"})
		}
		*atomCell(st, a[0]) = a[1]
		return nil
	}
	cellOf := func(v value) *value {
		p, ok := v.(*value)
		if !ok || p == nil {
			panic(pathEnd{kind: "panic", msg: "sync/atomic operation on a nil address"})
		}
		return p
	}
	for _, ty := range []string{"Int32", "Int64", "Uint32", "Uint64", "Uintptr"} {
		m["sync/atomic.Load"+ty] = func(st *State, fr *frame, a []value, cc *ssa.CallCommon) value { return copyVal(*cellOf(a[0])) }
		m["sync/atomic.Store"+ty] = func(st *State, fr *frame, a []value, cc *ssa.CallCommon) value {
			*cellOf(a[0]) = a[1]
			return nil
		}
		m["sync/atomic.Add"+ty] = func(st *State, fr *frame, a []value, cc *ssa.CallCommon) value {
			c := cellOf(a[0])
			*c = BVBin("bvadd", (*c).(*Term), a[1].(*Term))
			return *c
		}
		m["sync/atomic.Swap"+ty] = func(st *State, fr *frame, a []value, cc *ssa.CallCommon) value {
			c := cellOf(a[0])
			old := *c
			*c = a[1]
			return old
		}
		m["sync/atomic.CompareAndSwap"+ty] = func(st *State, fr *frame, a []value, cc *ssa.CallCommon) value {
			c := cellOf(a[0])
			if st.decide(Eq((*c).(*Term), a[1].(*Term))) {
				*c = a[2]
				return True
			}
			return False
		}
	}
	for _, n := range []string{"(*sync.Mutex).Lock", "(*sync.Mutex).Unlock", "(*sync.RWMutex).Lock", "(*sync.RWMutex).Unlock", "(*sync.RWMutex).RLock", "(*sync.RWMutex).RUnlock"} {
		m[n] = func(st *State, fr *frame, a []value, cc *ssa.CallCommon) value { return nil }
	}
	// strings.ToUpper / ToLower: exact for ASCII (byte-wise); a string that may hold a byte >= 0x80 ends the path (Unicode
	// case mapping is not summarised)
	caseMap := func(upper bool) intrinsic {
		return func(st *State, fr *frame, a []value, cc *ssa.CallCommon) value {
			in := a[0].(*Str)
			if c, ok := in.Concrete(); ok && in.Blob == nil {
				if upper {
					return StrConst(strings.ToUpper(c))
				}
				return StrConst(strings.ToLower(c))
			}
			if in.Blob != nil {
				panic(pathEnd{kind: "unsupported", msg: "case mapping of an abstract string"})
			}
			out := &Str{Len: in.Len}
			for _, b := range in.B {
				if st.decide(BVCmp("bvuge", b, BVConstI(0x80, 8))) {
					panic(pathEnd{kind: "unsupported", msg: "case mapping of a string with non-ASCII bytes"})
				}
				lo, hi, d := int64('a'), int64('z'), "bvsub"
				if !upper {
					lo, hi, d = 'A', 'Z', "bvadd"
				}
				is := And(BVCmp("bvuge", b, BVConstI(lo, 8)), BVCmp("bvule", b, BVConstI(hi, 8)))
				out.B = append(out.B, Ite(is, BVBin(d, b, BVConstI(32, 8)), b))
			}
			return out
		}
	}
	m["strings.ToUpper"] = caseMap(true)
	m["strings.ToLower"] = caseMap(false)
	m[V+"SlashFree"] = func(st *State, fr *frame, a []value, cc *ssa.CallCommon) value {
		label, _ := a[0].(*Str).Concrete()
		n, _ := asConcreteInt(a[1])
		s := &Str{Len: BVConstI(int64(n), 64)}
		terms := []*Term{s.Len}
		for i := 0; i < n; i++ {
			b := st.freshVar(fmt.Sprintf("%s_b%d", label, i), BV(8))
			st.assume(Not(Eq(b, BVConstI('/', 8))))
			s.B = append(s.B, b)
			terms = append(terms, b)
		}
		st.draws = append(st.draws, drawRec{label, "string", terms})
		return s
	}
	m[V+"Uint32"] = func(st *State, fr *frame, a []value, cc *ssa.CallCommon) value {
		label, _ := a[0].(*Str).Concrete()
		x := st.freshVar(label, BV(32))
		st.draws = append(st.draws, drawRec{label, "uint32", []*Term{x}})
		return x
	}
	m[V+"Choose"] = func(st *State, fr *frame, a []value, cc *ssa.CallCommon) value {
		label, _ := a[0].(*Str).Concrete()
		n, _ := asConcreteInt(a[1])
		x := st.freshVar(label, BV(64))
		st.draws = append(st.draws, drawRec{label, "choose", []*Term{x}})
		st.assume(BVCmp("bvult", x, BVConstI(int64(n), 64)))
		for c := 0; c < n; c++ {
			if st.decide(Eq(x, BVConstI(int64(c), 64))) {
				return BVConstI(int64(c), 64)
			}
		}
		panic(pathEnd{kind: "dead"})
	}
	m["cosmossdk.io/math.NewInt"] = func(st *State, fr *frame, a []value, cc *ssa.CallCommon) value {
		return &bigV{v: IntConst(a[0].(*Term).Signed())}
	}
	m[V+"Int32"] = func(st *State, fr *frame, a []value, cc *ssa.CallCommon) value {
		label, _ := a[0].(*Str).Concrete()
		x := st.freshVar(label, BV(32))
		st.draws = append(st.draws, drawRec{label, "int32", []*Term{x}})
		return x
	}
	m[V+"Bool"] = func(st *State, fr *frame, a []value, cc *ssa.CallCommon) value {
		label, _ := a[0].(*Str).Concrete()
		x := st.freshVar(label, SBool)
		st.draws = append(st.draws, drawRec{label, "bool", []*Term{x}})
		return x
	}
	m["context.Background"] = func(st *State, fr *frame, a []value, cc *ssa.CallCommon) value {
		return iface{t: errObjType, v: &opaque{tag: "ctx"}}
	}
	C := "cosmossdk.io/collections."
	m[C+"NewSchemaBuilder"] = func(st *State, fr *frame, a []value, cc *ssa.CallCommon) value {
		p := new(value)
		*p = structure{}
		return p
	}
	m[C+"PairKeyCodec"] = func(st *State, fr *frame, a []value, cc *ssa.CallCommon) value { return iface{} }
	m[C+"NewKeySet"] = func(st *State, fr *frame, a []value, cc *ssa.CallCommon) value {
		rt := st.curFn.Signature.Results().At(0).Type()
		v := zero(rt).(structure)
		stt := rt.Underlying().(*types.Struct)
		for k := 0; k < stt.NumFields(); k++ {
			if stt.Field(k).Name() == "name" {
				v[k] = a[2]
			}
		}
		return v
	}
	storeOf := func(st *State, recv value, rt types.Type) *mapV {
		stt := rt.Underlying().(*types.Struct)
		name := ""
		for k := 0; k < stt.NumFields(); k++ {
			if stt.Field(k).Name() == "name" {
				name, _ = recv.(structure)[k].(*Str).Concrete()
			}
		}
		if st.stores == nil {
			st.stores = map[string]*mapV{}
		}
		if st.stores[name] == nil {
			st.stores[name] = &mapV{}
		}
		return st.stores[name]
	}
	var normKey func(v value) value
	normKey = func(v value) value { // deref Pair/Triple/Quad pointer fields
		if s, ok := v.(structure); ok {
			out := make(structure, len(s))
			for k := range s {
				if p, ok := s[k].(*value); ok && p != nil {
					out[k] = normKey(*p)
				} else {
					out[k] = s[k]
				}
			}
			return out
		}
		return v
	}
	nilIface := func(st *State, fr *frame, a []value, cc *ssa.CallCommon) value { return iface{} }
	m["github.com/cosmos/cosmos-sdk/codec.CollValue"] = nilIface
	m[C+"QuadKeyCodec"] = nilIface
	m[C+"TripleKeyCodec"] = nilIface
	m["cosmossdk.io/collections/indexes.NewMulti"] = func(st *State, fr *frame, a []value, cc *ssa.CallCommon) value {
		p := new(value)
		*p = structure{a[5]} // the real getRefKey closure from state.go
		return p
	}
	m[C+"NewIndexedMap"] = func(st *State, fr *frame, a []value, cc *ssa.CallCommon) value {
		rt := st.curFn.Signature.Results().At(0).Type().(*types.Pointer).Elem()
		v := zero(rt).(structure)
		stt := rt.Underlying().(*types.Struct)
		for k := 0; k < stt.NumFields(); k++ {
			if stt.Field(k).Name() == "Indexes" {
				v[k] = a[5]
			}
		}
		p := new(value)
		*p = v
		return p
	}
	ptrStore := func(st *State, recv value) *mapV {
		if st.pstores == nil {
			st.pstores = map[*value]*mapV{}
		}
		p := recv.(*value)
		if st.pstores[p] == nil {
			st.pstores[p] = &mapV{}
		}
		return st.pstores[p]
	}
	IM := "(*" + C + "IndexedMap[PrimaryKey, Value, Idx])."
	m[IM+"Get"] = func(st *State, fr *frame, a []value, cc *ssa.CallCommon) value {
		s := ptrStore(st, a[0])
		key := normKey(a[2])
		for k := range s.keys {
			if st.decide(st.eq(s.keys[k], key)) {
				return tuple{copyVal(s.vals[k]), iface{}}
			}
		}
		vt := st.curFn.Signature.Results().At(0).Type()
		return tuple{zero(vt), newErr(st, "collections.ErrNotFound")}
	}
	callClosure := func(st *State, fr *frame, c value, args ...value) value {
		cl := c.(*closure)
		return st.callFunction(fr, cl.Fn, append(args, cl.Env...), nil)
	}
	m[IM+"Set"] = func(st *State, fr *frame, a []value, cc *ssa.CallCommon) value {
		s := ptrStore(st, a[0])
		// maintain every *indexes.Multi found in the Indexes struct through its real closure
		// (old references are not removed in this prototype: keys of an entry never change on update)
		idx := (*(a[0].(*value))).(structure)
		for _, f := range idx {
			if ist, ok := f.(structure); ok {
				for _, mf := range ist {
					mp, ok := mf.(*value)
					if !ok || mp == nil {
						continue
					}
					ms, ok := (*mp).(structure)
					if !ok || len(ms) != 1 {
						continue
					}
					r := callClosure(st, fr, ms[0], a[2], a[3]).(tuple)
					if e := r[1].(iface); e.t != nil {
						return e
					}
					is := ptrStore(st, mp)
					k1, k2 := new(value), new(value)
					*k1, *k2 = copyVal(r[0]), copyVal(a[2])
					st.mapSetOrig(is, structure{normKey(r[0]), normKey(a[2])}, structure{k1, k2}, True)
				}
			}
		}
		st.mapSetOrig(s, normKey(a[2]), copyVal(a[2]), copyVal(a[3]))
		return iface{}
	}
	m[IM+"Walk"] = func(st *State, fr *frame, a []value, cc *ssa.CallCommon) value {
		s := ptrStore(st, a[0])
		for k := range s.keys {
			r := callClosure(st, fr, a[3], copyVal(s.orig[k]), copyVal(s.vals[k])).(tuple)
			if e := r[1].(iface); e.t != nil {
				return e
			}
			if st.decide(r[0].(*Term)) {
				break
			}
		}
		return iface{}
	}
	m["("+C+"KeySet[K]).Walk"] = func(st *State, fr *frame, a []value, cc *ssa.CallCommon) value {
		s := storeOf(st, a[0], st.curFn.Signature.Recv().Type())
		for k := range s.keys {
			r := callClosure(st, fr, a[3], copyVal(s.orig[k])).(tuple)
			if e := r[1].(iface); e.t != nil {
				return e
			}
			if st.decide(r[0].(*Term)) {
				break
			}
		}
		return iface{}
	}
	// query.CollectionPaginate: real option closures, real transform closure, no paging
	m["github.com/cosmos/cosmos-sdk/types/query.CollectionPaginate"] = func(st *State, fr *frame, a []value, cc *ssa.CallCommon) value {
		fn := st.curFn
		var s *mapV
		isIndex := false
		switch c := a[1].(type) {
		case *value:
			s = ptrStore(st, c)
			if ms, ok := (*c).(structure); ok && len(ms) == 1 {
				isIndex = true
			}
		case structure:
			s = storeOf(st, c, fn.Signature.Params().At(1).Type())
		default:
			panic(pathEnd{kind: "unsupported", msg: fmt.Sprintf("CollectionPaginate on %T", c)})
		}
		// options
		optT := fn.Signature.Params().At(4).Type().(*types.Slice).Elem().(*types.Signature).Params().At(0).Type().(*types.Pointer).Elem()
		op := new(value)
		*op = zero(optT)
		for _, o := range a[4].([]value) {
			callClosure(st, fr, o, op)
		}
		var prefix value
		if pp := (*op).(structure)[0].(*value); pp != nil {
			prefix = normKey(*pp)
		}
		var out []value
		for k := range s.keys {
			key := s.keys[k]
			if prefix != nil {
				// prefix = key with only leading components set (the rest are nil pointers)
				kc := key.(structure)
				match := True
				for j, pc := range prefix.(structure) {
					if p, isPtr := pc.(*value); isPtr && p == nil {
						continue
					}
					match = And(match, st.eq(kc[j], pc))
				}
				if !st.decide(match) {
					continue
				}
			}
			var val value = structure{}
			if !isIndex {
				val = copyVal(s.vals[k])
				if t, ok := val.(*Term); ok && t == True {
					val = structure{} // NoValue
				}
			}
			r := callClosure(st, fr, a[3], copyVal(s.orig[k]), val).(tuple)
			if e := r[1].(iface); e.t != nil {
				return tuple{[]value(nil), (*value)(nil), e}
			}
			out = append(out, r[0])
		}
		return tuple{out, (*value)(nil), iface{}}
	}
	m["("+C+"KeySet[K]).Has"] = func(st *State, fr *frame, a []value, cc *ssa.CallCommon) value {
		s := storeOf(st, a[0], st.curFn.Signature.Recv().Type())
		key := normKey(a[2])
		found := False
		for _, k := range s.keys {
			found = Or(found, st.eq(k, key))
		}
		return tuple{found, iface{}}
	}
	m["("+C+"KeySet[K]).Set"] = func(st *State, fr *frame, a []value, cc *ssa.CallCommon) value {
		s := storeOf(st, a[0], st.curFn.Signature.Recv().Type())
		st.mapSetOrig(s, normKey(a[2]), copyVal(a[2]), True)
		return iface{}
	}
	m["("+C+"KeySet[K]).Remove"] = func(st *State, fr *frame, a []value, cc *ssa.CallCommon) value {
		s := storeOf(st, a[0], st.curFn.Signature.Recv().Type())
		key := normKey(a[2])
		for k := range s.keys {
			if st.decide(st.eq(s.keys[k], key)) {
				s.keys = append(s.keys[:k:k], s.keys[k+1:]...)
				s.vals = append(s.vals[:k:k], s.vals[k+1:]...)
				s.orig = append(s.orig[:k:k], s.orig[k+1:]...)
				break
			}
		}
		return iface{}
	}
	m[V+"RealCodec"] = func(st *State, fr *frame, a []value, cc *ssa.CallCommon) value {
		return iface{t: errObjType, v: &opaque{tag: "codec"}}
	}
	m[V+"SDKContext"] = func(st *State, fr *frame, a []value, cc *ssa.CallCommon) value {
		return &opaque{tag: "sdkctx", id: envOf(a[0])}
	}
	// the block the harness context stands in (verif.NewEnv: header height 0, chain id "", deliver mode)
	sdkCtx := "(github.com/cosmos/cosmos-sdk/types.Context)."
	m[sdkCtx+"BlockHeight"] = func(st *State, fr *frame, a []value, cc *ssa.CallCommon) value { return BVConstI(0, 64) }
	m[sdkCtx+"ChainID"] = func(st *State, fr *frame, a []value, cc *ssa.CallCommon) value { return StrConst("") }
	for _, n := range []string{"IsCheckTx", "IsReCheckTx", "IsSigverifyTx"} {
		m[sdkCtx+n] = func(st *State, fr *frame, a []value, cc *ssa.CallCommon) value { return False }
	}
	// CacheContext: a branch of the store. The branch gets its own copy of every summarised collection of the parent
	// environment; the returned write function copies them back. (Objects that are not in the store — the harness'
	// bank ledger — are not branched, natively neither: the models document that.)
	m[sdkCtx+"CacheContext"] = func(st *State, fr *frame, a []value, cc *ssa.CallCommon) value {
		parent := envOf(a[0])
		st.envN++
		child := st.envN
		pp, cp := fmt.Sprintf("%d/", parent), fmt.Sprintf("%d/", child)
		cpStore := func(c *collStore) *collStore {
			return &collStore{keys: append([]value{}, c.keys...), orig: append([]value{}, c.orig...), vals: append([]value{}, c.vals...)}
		}
		for n, c := range st.colls {
			if strings.HasPrefix(n, pp) {
				st.colls[cp+n[len(pp):]] = cpStore(c)
			}
		}
		write := goFunc(func(st *State, _ []value) value {
			for n, c := range st.colls {
				if strings.HasPrefix(n, cp) {
					st.colls[pp+n[len(cp):]] = cpStore(c)
				}
			}
			return nil
		})
		return tuple{&opaque{tag: "sdkctx", id: child}, write}
	}
	m[V+"NewEnv"] = func(st *State, fr *frame, a []value, cc *ssa.CallCommon) value {
		st.envN++
		return tuple{iface{t: errObjType, v: &opaque{tag: "ctx", id: st.envN}}, iface{t: errObjType, v: &opaque{tag: "storesvc", id: st.envN}}}
	}
	m[V+"Assume"] = func(st *State, fr *frame, a []value, cc *ssa.CallCommon) value {
		c := a[0].(*Term)
		if !c.IsConst() && !st.feasible(c) {
			panic(pathEnd{kind: "dead"})
		}
		st.assume(c)
		return nil
	}
	m[V+"Cover"] = func(st *State, fr *frame, a []value, cc *ssa.CallCommon) value {
		label, _ := a[0].(*Str).Concrete()
		st.covers[label] = true
		st.trace = append(st.trace, "cover "+label)
		return nil
	}
	m[V+"Assert"] = func(st *State, fr *frame, a []value, cc *ssa.CallCommon) value {
		c := a[0].(*Term)
		label, _ := a[1].(*Str).Concrete()
		st.trace = append(st.trace, "assert "+label)
		if c.IsTrue() {
			return nil
		}
		r := st.solver.Check(Not(c))
		if r == "unknown" {
			// an unknown assertion would make the harness inconclusive: be patient once
			st.solver.EndCheck()
			patient := 90000
			if st.e.tier == "thorough" {
				patient = 300000
			}
			r = st.solver.CheckPatient(Not(c), patient)
		}
		if r == "sat" {
			vals := st.solver.Values(st.symvars)
			model := map[string]string{}
			for i, n := range st.symname {
				model[n] = vals[i]
			}
			_ = model
			v := Violation{Label: label, Path: append([]bool{}, st.taken...), Witness: st.witness()}
			st.e.mu.Lock()
			st.e.Violations = append(st.e.Violations, v)
			st.e.mu.Unlock()
		}
		st.solver.EndCheck()
		if r == "unknown" {
			panic(pathEnd{kind: "unknown", msg: "assertion " + label})
		}
		if c.IsFalse() {
			panic(pathEnd{kind: "dead"})
		}
		if r == "sat" {
			if !st.feasible(c) {
				panic(pathEnd{kind: "dead"})
			}
		}
		st.assume(c)
		return nil
	}
	// text of "<message>: <inner text>" (cosmossdk.io/errors wrappedError.Error)
	wrapText := func(st *State, msgSkel string, msgLeaves []*Term, inner value) (string, []*Term) {
		is, il := st.errTextOf(inner)
		return "W(" + msgSkel + ": " + is + ")", append(append([]*Term{}, msgLeaves...), il...)
	}
	wrapNil := func(st *State, fr *frame, a []value, cc *ssa.CallCommon) value {
		if e, ok := a[0].(iface); ok && e.t == nil {
			return iface{}
		}
		var ms string
		var ml []*Term
		if len(a) > 2 { // Wrapf(err, format, args...)
			ms, ml = st.fmtText(a[1].(*Str), a[2].([]value))
		} else {
			ms, ml = strText(st, a[1])
		}
		sk, lv := wrapText(st, ms, ml, a[0])
		return newErrText(st, "wrap", sk, lv, errChain(a[0])...)
	}
	m["cosmossdk.io/errors.Wrap"] = wrapNil
	m["cosmossdk.io/errors.Wrapf"] = wrapNil
	sentinelText := func(st *State, p value) (string, []*Term) {
		k := st.newKeyB()
		if q, ok := p.(*value); ok && q != nil {
			if x, ok := (*q).(structure); ok && len(x) >= 3 {
				k.w("E(")
				k.content(x[2])
				k.w(")")
				return k.sb.String(), k.leaves
			}
		}
		k.w("E«sentinel»")
		return k.sb.String(), k.leaves
	}
	m["(*cosmossdk.io/errors.Error).Wrap"] = func(st *State, fr *frame, a []value, cc *ssa.CallCommon) value {
		ms, ml := strText(st, a[1])
		is, il := sentinelText(st, a[0])
		return newErrText(st, "Error.Wrap", "W("+ms+": "+is+")", append(ml, il...), a[0])
	}
	m["(*cosmossdk.io/errors.Error).Wrapf"] = func(st *State, fr *frame, a []value, cc *ssa.CallCommon) value {
		ms, ml := st.fmtText(a[1].(*Str), a[2].([]value))
		is, il := sentinelText(st, a[0])
		return newErrText(st, "Error.Wrapf", "W("+ms+": "+is+")", append(ml, il...), a[0])
	}
	m["errors.Is"] = func(st *State, fr *frame, a []value, cc *ssa.CallCommon) value {
		tgt := a[1].(iface)
		if e, ok := a[0].(iface); ok && e.t == nil {
			return False
		}
		for _, c := range errChain(a[0]) {
			if p, ok := c.(*value); ok {
				if q, ok := tgt.v.(*value); ok && p == q {
					return True
				}
			}
		}
		return False
	}
	m["cosmossdk.io/errors.Register"] = func(st *State, fr *frame, a []value, cc *ssa.CallCommon) value {
		p := new(value)
		*p = structure{a[0], a[1], a[2], BVConstI(2, 32)} // codespace, code, desc, grpcCode (layout of cosmossdk.io/errors.Error)
		return p
	}
	// matchAt: does sep (concrete) occur in s at position i
	matchAt := func(s *Str, i int, sep string) *Term {
		if i+len(sep) > len(s.B) {
			return False
		}
		r := BVCmp("bvule", BVConstI(int64(i+len(sep)), 64), s.Len)
		for k := 0; k < len(sep); k++ {
			r = And(r, Eq(s.B[i+k], BVConstI(int64(sep[k]), 8)))
		}
		return r
	}
	m["strings.Index"] = func(st *State, fr *frame, a []value, cc *ssa.CallCommon) value {
		s := a[0].(*Str)
		sub, ok := a[1].(*Str).Concrete()
		if !ok || s.Blob != nil {
			panic(pathEnd{kind: "unsupported", msg: "strings.Index with a non-constant separator"})
		}
		if len(sub) == 0 {
			return BVConstI(0, 64)
		}
		r := BVConst(big.NewInt(-1), 64)
		for i := len(s.B) - len(sub); i >= 0; i-- {
			r = Ite(matchAt(s, i, sub), BVConstI(int64(i), 64), r)
		}
		return r
	}
	m["strings.Contains"] = func(st *State, fr *frame, a []value, cc *ssa.CallCommon) value {
		s := a[0].(*Str)
		sub, ok := a[1].(*Str).Concrete()
		if !ok || s.Blob != nil {
			panic(pathEnd{kind: "unsupported", msg: "strings.Contains with a non-constant substring"})
		}
		r := BoolConst(len(sub) == 0)
		for i := 0; i+len(sub) <= len(s.B); i++ {
			r = Or(r, matchAt(s, i, sub))
		}
		return r
	}
	// scan forks on every position: the non-overlapping occurrences of sep, left to right (as strings.Count / Replace)
	scan := func(st *State, s *Str, sep string) (int, []int) {
		n := len(s.B)
		if s.Len.IsConst() {
			n = int(s.Len.C.Int64())
		} else {
			for n = 0; n < len(s.B); n++ {
				if st.decide(Eq(s.Len, BVConstI(int64(n), 64))) {
					break
				}
			}
		}
		var at []int
		for i := 0; i+len(sep) <= n; {
			if st.decide(matchAt(s, i, sep)) {
				at = append(at, i)
				i += len(sep)
			} else {
				i++
			}
		}
		return n, at
	}
	m["strings.Count"] = func(st *State, fr *frame, a []value, cc *ssa.CallCommon) value {
		s := a[0].(*Str)
		sub, ok := a[1].(*Str).Concrete()
		if !ok || s.Blob != nil || len(sub) == 0 {
			panic(pathEnd{kind: "unsupported", msg: "strings.Count with a non-constant or empty separator"})
		}
		_, at := scan(st, s, sub)
		return BVConstI(int64(len(at)), 64)
	}
	replace := func(st *State, a []value, limit int) value {
		s := a[0].(*Str)
		old, ok1 := a[1].(*Str).Concrete()
		nw, ok2 := a[2].(*Str).Concrete()
		if !ok1 || !ok2 || s.Blob != nil || len(old) == 0 {
			panic(pathEnd{kind: "unsupported", msg: "strings.Replace with non-constant or empty pattern"})
		}
		n, at := scan(st, s, old)
		out := &Str{}
		pos := 0
		for k, i := range at {
			if limit >= 0 && k >= limit {
				break
			}
			out.B = append(out.B, s.B[pos:i]...)
			for _, c := range []byte(nw) {
				out.B = append(out.B, BVConstI(int64(c), 8))
			}
			pos = i + len(old)
		}
		out.B = append(out.B, s.B[pos:n]...)
		out.Len = BVConstI(int64(len(out.B)), 64)
		return out
	}
	m["strings.ReplaceAll"] = func(st *State, fr *frame, a []value, cc *ssa.CallCommon) value { return replace(st, a, -1) }
	m["strings.Replace"] = func(st *State, fr *frame, a []value, cc *ssa.CallCommon) value {
		lim, ok := asConcreteInt(a[3])
		if !ok {
			panic(pathEnd{kind: "unsupported", msg: "strings.Replace with a symbolic count"})
		}
		return replace(st, a[:3], lim)
	}
	indexByte := func(st *State, fr *frame, a []value, cc *ssa.CallCommon) value {
		s := a[0].(*Str)
		c := Resize(a[1].(*Term), 8, false)
		r := BVConst(big.NewInt(-1), 64)
		for i := len(s.B) - 1; i >= 0; i-- {
			hit := And(Eq(s.B[i], c), BVCmp("bvult", BVConstI(int64(i), 64), s.Len))
			r = Ite(hit, BVConstI(int64(i), 64), r)
		}
		return r
	}
	m["strings.IndexByte"] = indexByte
	m["internal/bytealg.IndexByteString"] = indexByte
	m["internal/bytealg.IndexByte"] = indexByte
	m["bytes.IndexByte"] = indexByte
	MI := "(cosmossdk.io/math.Int)."
	bi := func(st *State, x value, fr *frame, what string) *Term {
		b := x.(*bigV)
		if b.isNil {
			panic(pathEnd{kind: "panic", msg: "nil math.Int receiver in " + what})
		}
		return b.v
	}
	overflow := func(r *Term) *Term { // |r| >= 2^256
		return Or(IntCmp(">=", r, Two256), IntCmp("<=", r, IntBin("-", IntConst(big.NewInt(0)), Two256)))
	}
	m[V+"BigInt"] = func(st *State, fr *frame, a []value, cc *ssa.CallCommon) value {
		label, _ := a[0].(*Str).Concrete()
		x := st.freshVar(label, SInt)
		st.draws = append(st.draws, drawRec{label, "bigint", []*Term{x}})
		st.assume(Not(overflow(x)))
		return &bigV{v: x}
	}
	m[MI+"IsNil"] = func(st *State, fr *frame, a []value, cc *ssa.CallCommon) value { return BoolConst(a[0].(*bigV).isNil) }
	m[MI+"IsPositive"] = func(st *State, fr *frame, a []value, cc *ssa.CallCommon) value {
		return IntCmp(">", bi(st, a[0], fr, "IsPositive"), IntConst(big.NewInt(0)))
	}
	m[MI+"IsNegative"] = func(st *State, fr *frame, a []value, cc *ssa.CallCommon) value {
		return IntCmp("<", bi(st, a[0], fr, "IsNegative"), IntConst(big.NewInt(0)))
	}
	m[MI+"IsZero"] = func(st *State, fr *frame, a []value, cc *ssa.CallCommon) value {
		return Eq(bi(st, a[0], fr, "IsZero"), IntConst(big.NewInt(0)))
	}
	m[MI+"GTE"] = func(st *State, fr *frame, a []value, cc *ssa.CallCommon) value {
		return IntCmp(">=", bi(st, a[0], fr, "GTE"), bi(st, a[1], fr, "GTE"))
	}
	m[MI+"LT"] = func(st *State, fr *frame, a []value, cc *ssa.CallCommon) value {
		return IntCmp("<", bi(st, a[0], fr, "LT"), bi(st, a[1], fr, "LT"))
	}
	m[MI+"GT"] = func(st *State, fr *frame, a []value, cc *ssa.CallCommon) value {
		return IntCmp(">", bi(st, a[0], fr, "GT"), bi(st, a[1], fr, "GT"))
	}
	m[MI+"LTE"] = func(st *State, fr *frame, a []value, cc *ssa.CallCommon) value {
		return IntCmp("<=", bi(st, a[0], fr, "LTE"), bi(st, a[1], fr, "LTE"))
	}
	zeroI := IntConst(big.NewInt(0))
	m[MI+"Sign"] = func(st *State, fr *frame, a []value, cc *ssa.CallCommon) value {
		v := bi(st, a[0], fr, "Sign")
		return Ite(IntCmp("<", v, zeroI), BVConst(big.NewInt(-1), 64), Ite(IntCmp(">", v, zeroI), BVConstI(1, 64), BVConstI(0, 64)))
	}
	m[MI+"Neg"] = func(st *State, fr *frame, a []value, cc *ssa.CallCommon) value {
		return &bigV{v: IntBin("-", zeroI, bi(st, a[0], fr, "Neg"))}
	}
	m[MI+"Abs"] = func(st *State, fr *frame, a []value, cc *ssa.CallCommon) value {
		v := bi(st, a[0], fr, "Abs")
		return &bigV{v: Ite(IntCmp("<", v, zeroI), IntBin("-", zeroI, v), v)}
	}
	m[MI+"SubRaw"] = func(st *State, fr *frame, a []value, cc *ssa.CallCommon) value {
		k := a[1].(*Term)
		var kt *Term
		if k.IsConst() {
			kt = IntConst(k.Signed())
		} else {
			n := BV2Nat(k)
			kt = Ite(BVCmp("bvslt", k, BVConstI(0, 64)), IntBin("-", n, IntConst(new(big.Int).Lsh(big.NewInt(1), 64))), n)
		}
		r := IntBin("-", bi(st, a[0], fr, "SubRaw"), kt)
		st.mayPanic(overflow(r), "math.Int overflow (SubRaw)", fr, cc.Pos())
		return &bigV{v: r}
	}
	// truncated division by a symbolic divisor (big.Int.Quo): panics on zero
	quo := func(st *State, x, d *Term) *Term {
		ax := Ite(IntCmp("<", x, zeroI), IntBin("-", zeroI, x), x)
		ad := Ite(IntCmp("<", d, zeroI), IntBin("-", zeroI, d), d)
		q := mk("div", SInt, ax, ad)
		neg := Not(Eq(IntCmp("<", x, zeroI), IntCmp("<", d, zeroI)))
		return Ite(neg, IntBin("-", zeroI, q), q)
	}
	m[MI+"Quo"] = func(st *State, fr *frame, a []value, cc *ssa.CallCommon) value {
		x, d := bi(st, a[0], fr, "Quo"), bi(st, a[1], fr, "Quo")
		st.mayPanic(Eq(d, zeroI), "math.Int division by zero", fr, cc.Pos())
		return &bigV{v: quo(st, x, d)}
	}
	m[MI+"SafeQuo"] = func(st *State, fr *frame, a []value, cc *ssa.CallCommon) value {
		x, d := bi(st, a[0], fr, "SafeQuo"), bi(st, a[1], fr, "SafeQuo")
		if st.decide(Eq(d, zeroI)) {
			return tuple{&bigV{isNil: true}, newErr(st, "ErrIntDivisionByZero")}
		}
		return tuple{&bigV{v: quo(st, x, d)}, iface{}}
	}
	m[MI+"Int64"] = func(st *State, fr *frame, a []value, cc *ssa.CallCommon) value {
		v := bi(st, a[0], fr, "Int64")
		lim := IntConst(new(big.Int).Lsh(big.NewInt(1), 63))
		st.mayPanic(Or(IntCmp(">=", v, lim), IntCmp("<", v, IntBin("-", zeroI, lim))), "math.Int.Int64() out of bound", fr, cc.Pos())
		// in range: two's complement of v
		return mk("int2bv64", BV(64), v)
	}
	m[MI+"Uint64"] = func(st *State, fr *frame, a []value, cc *ssa.CallCommon) value {
		v := bi(st, a[0], fr, "Uint64")
		st.mayPanic(Or(IntCmp("<", v, zeroI), IntCmp(">=", v, IntConst(new(big.Int).Lsh(big.NewInt(1), 64)))), "math.Int.Uint64() out of bound", fr, cc.Pos())
		return mk("int2bv64", BV(64), v)
	}
	m[MI+"IsInt64"] = func(st *State, fr *frame, a []value, cc *ssa.CallCommon) value {
		v := bi(st, a[0], fr, "IsInt64")
		lim := IntConst(new(big.Int).Lsh(big.NewInt(1), 63))
		return And(IntCmp("<", v, lim), IntCmp(">=", v, IntBin("-", zeroI, lim)))
	}
	m[MI+"IsUint64"] = func(st *State, fr *frame, a []value, cc *ssa.CallCommon) value {
		v := bi(st, a[0], fr, "IsUint64")
		return And(IntCmp(">=", v, zeroI), IntCmp("<", v, IntConst(new(big.Int).Lsh(big.NewInt(1), 64))))
	}
	m["cosmossdk.io/math.MaxInt"] = func(st *State, fr *frame, a []value, cc *ssa.CallCommon) value {
		x, y := a[0].(*bigV), a[1].(*bigV)
		if x.isNil || y.isNil {
			panic(pathEnd{kind: "panic", msg: "math.MaxInt on a nil Int"})
		}
		return &bigV{v: Ite(IntCmp(">=", x.v, y.v), x.v, y.v)}
	}
	m["cosmossdk.io/math.MinInt"] = func(st *State, fr *frame, a []value, cc *ssa.CallCommon) value {
		x, y := a[0].(*bigV), a[1].(*bigV)
		if x.isNil || y.isNil {
			panic(pathEnd{kind: "panic", msg: "math.MinInt on a nil Int"})
		}
		return &bigV{v: Ite(IntCmp("<=", x.v, y.v), x.v, y.v)}
	}
	m[MI+"Equal"] = func(st *State, fr *frame, a []value, cc *ssa.CallCommon) value {
		return Eq(bi(st, a[0], fr, "Equal"), bi(st, a[1], fr, "Equal"))
	}
	addsub := func(op string) intrinsic {
		return func(st *State, fr *frame, a []value, cc *ssa.CallCommon) value {
			r := IntBin(op, bi(st, a[0], fr, op), bi(st, a[1], fr, op))
			st.mayPanic(overflow(r), "math.Int overflow ("+op+")", fr, cc.Pos())
			return &bigV{v: r}
		}
	}
	m[MI+"Add"] = addsub("+")
	m[MI+"Sub"] = addsub("-")
	m[MI+"Mul"] = func(st *State, fr *frame, a []value, cc *ssa.CallCommon) value {
		r := IntBin("*", bi(st, a[0], fr, "Mul"), bi(st, a[1], fr, "Mul"))
		st.mayPanic(overflow(r), "math.Int overflow (Mul)", fr, cc.Pos())
		return &bigV{v: r}
	}
	m[MI+"MulRaw"] = func(st *State, fr *frame, a []value, cc *ssa.CallCommon) value {
		k := IntConst(a[1].(*Term).Signed())
		r := IntBin("*", bi(st, a[0], fr, "MulRaw"), k)
		st.mayPanic(overflow(r), "math.Int overflow (MulRaw)", fr, cc.Pos())
		return &bigV{v: r}
	}
	m[MI+"AddRaw"] = func(st *State, fr *frame, a []value, cc *ssa.CallCommon) value {
		k := IntConst(a[1].(*Term).Signed())
		r := IntBin("+", bi(st, a[0], fr, "AddRaw"), k)
		st.mayPanic(overflow(r), "math.Int overflow (AddRaw)", fr, cc.Pos())
		return &bigV{v: r}
	}
	safeAddSub := func(op string) intrinsic {
		return func(st *State, fr *frame, a []value, cc *ssa.CallCommon) value {
			r := IntBin(op, bi(st, a[0], fr, "Safe"+op), bi(st, a[1], fr, "Safe"+op))
			if st.decide(overflow(r)) {
				return tuple{&bigV{isNil: true}, newErr(st, "ErrIntOverflow")}
			}
			return tuple{&bigV{v: r}, iface{}}
		}
	}
	m[MI+"SafeAdd"] = safeAddSub("+")
	m[MI+"SafeSub"] = safeAddSub("-")
	m[MI+"SafeMul"] = func(st *State, fr *frame, a []value, cc *ssa.CallCommon) value {
		r := IntBin("*", bi(st, a[0], fr, "SafeMul"), bi(st, a[1], fr, "SafeMul"))
		if st.decide(overflow(r)) {
			return tuple{&bigV{isNil: true}, newErr(st, "ErrIntOverflow")}
		}
		return tuple{&bigV{v: r}, iface{}}
	}
	m[MI+"QuoRaw"] = func(st *State, fr *frame, a []value, cc *ssa.CallCommon) value {
		x := bi(st, a[0], fr, "QuoRaw")
		d := a[1].(*Term)
		if !d.IsConst() || d.Signed().Sign() <= 0 {
			panic(pathEnd{kind: "unsupported", msg: "QuoRaw non-constant/non-positive divisor"})
		}
		k := IntConst(d.Signed())
		zero := IntConst(big.NewInt(0))
		// truncated division (big.Int.Quo): floor for x>=0, -( (-x) div k ) for x<0
		q := Ite(IntCmp(">=", x, zero), mk("div", SInt, x, k), IntBin("-", zero, mk("div", SInt, IntBin("-", zero, x), k)))
		return &bigV{v: q}
	}
	m["cosmossdk.io/math.NewIntWithDecimal"] = func(st *State, fr *frame, a []value, cc *ssa.CallCommon) value {
		n, ok1 := asConcreteInt(a[0])
		d, ok2 := asConcreteInt(a[1])
		if !ok1 || !ok2 || d < 0 {
			panic(pathEnd{kind: "unsupported", msg: "NewIntWithDecimal with symbolic arguments"})
		}
		r := new(big.Int).Mul(big.NewInt(int64(n)), new(big.Int).Exp(big.NewInt(10), big.NewInt(int64(d)), nil))
		if r.BitLen() > 256 {
			panic(pathEnd{kind: "panic", msg: "NewIntWithDecimal() out of bound"})
		}
		return &bigV{v: IntConst(r)}
	}
	m["cosmossdk.io/math.OneInt"] = func(st *State, fr *frame, a []value, cc *ssa.CallCommon) value { return &bigV{v: IntConst(big.NewInt(1))} }
	m["cosmossdk.io/math.ZeroInt"] = func(st *State, fr *frame, a []value, cc *ssa.CallCommon) value { return &bigV{v: IntConst(big.NewInt(0))} }
	m["cosmossdk.io/math.NewIntFromUint64"] = func(st *State, fr *frame, a []value, cc *ssa.CallCommon) value {
		return &bigV{v: BV2Nat(a[0].(*Term))}
	}
	m[MI+"String"] = func(st *State, fr *frame, a []value, cc *ssa.CallCommon) value {
		b := a[0].(*bigV)
		if b.isNil {
			return StrConst("<nil>")
		}
		return &Str{Len: st.freshVar("decimal_len", BV(64)), Blob: decBlob{b.v}}
	}
	m["cosmossdk.io/math.NewIntFromString"] = func(st *State, fr *frame, a []value, cc *ssa.CallCommon) value {
		if d, isDec := a[0].(*Str).Blob.(decBlob); isDec {
			return tuple{&bigV{v: d.v}, True}
		}
		if cs, isC := a[0].(*Str).Concrete(); isC && a[0].(*Str).Blob == nil {
			// exactly what cosmossdk.io/math does: big.Int.SetString(s, 0) + 256-bit limit
			bi, ok := new(big.Int).SetString(cs, 0)
			if !ok || bi.BitLen() > 256 {
				return tuple{&bigV{isNil: true}, False}
			}
			return tuple{&bigV{v: IntConst(bi)}, True}
		}
		// functional: the same string content parses to the same result on this path
		if st.parseCache == nil {
			st.parseCache = map[string]value{}
		}
		key := strKey(a[0].(*Str))
		if r, ok := st.parseCache[key]; ok {
			return r
		}
		var res value
		defer func() {
			if res != nil {
				st.parseCache[key] = res
			}
		}()
		// prototype: uninterpreted (ok, v) per call; the full engine keys this on the argument
		ok := st.freshVar("parse_ok", SBool)
		v := st.freshVar("parse_val", SInt)
		st.assume(Not(overflow(v)))
		if st.decide(ok) {
			res = tuple{&bigV{v: v}, True}
		} else {
			res = tuple{&bigV{isNil: true}, False}
		}
		return res
	}
	// sdk.ParseCoinNormalized on a concrete string: <decimal amount><optional white space><denomination>; no denomination
	// units are registered, so normalisation is the identity and the amount is truncated to its integer part
	m["github.com/cosmos/cosmos-sdk/types.ParseCoinNormalized"] = func(st *State, fr *frame, a []value, cc *ssa.CallCommon) value {
		in := a[0].(*Str)
		cs, ok := in.Concrete()
		if !ok || in.Blob != nil {
			panic(pathEnd{kind: "unsupported", msg: "sdk.ParseCoinNormalized on a symbolic string"})
		}
		rt := st.funcOf(cc).Signature.Results().At(0).Type()
		fail := func() value { return tuple{zero(rt), newErr(st, "parse-coin")} }
		mm := parseCoinRe.FindStringSubmatch(strings.TrimSpace(cs))
		if mm == nil {
			return fail()
		}
		intPart, frac := mm[1], ""
		if i := strings.IndexByte(intPart, '.'); i >= 0 {
			intPart, frac = intPart[:i], intPart[i+1:]
		}
		if len(frac) > 18 {
			return fail()
		}
		if intPart == "" {
			intPart = "0"
		}
		bi, ok2 := new(big.Int).SetString(intPart, 10)
		if !ok2 || bi.BitLen() > 256 {
			return fail()
		}
		return tuple{structure{StrConst(mm[2]), &bigV{v: IntConst(bi)}}, iface{}}
	}
	m["github.com/cosmos/cosmos-sdk/types.AccAddressFromBech32"] = func(st *State, fr *frame, a []value, cc *ssa.CallCommon) value {
		ok := st.freshVar("bech32_ok", SBool)
		if st.decide(ok) {
			addr := make([]value, 20)
			for i := range addr {
				addr[i] = st.freshVar(fmt.Sprintf("addr_b%d", i), BV(8))
			}
			return tuple{addr, iface{}}
		}
		return tuple{[]value(nil), newErr(st, "bech32")}
	}
	m["github.com/cosmos/cosmos-sdk/types.NewCoin"] = func(st *State, fr *frame, a []value, cc *ssa.CallCommon) value {
		amt := a[1].(*bigV)
		if amt.isNil {
			panic(pathEnd{kind: "panic", msg: "sdk.NewCoin: nil amount"})
		}
		if d, ok := a[0].(*Str).Concrete(); !ok || len(d) < 3 {
			panic(pathEnd{kind: "unsupported", msg: "NewCoin symbolic/short denom in prototype"})
		}
		st.mayPanic(IntCmp("<", amt.v, IntConst(big.NewInt(0))), "sdk.NewCoin: negative amount", fr, cc.Pos())
		return structure{a[0], amt}
	}
	m["github.com/cosmos/cosmos-sdk/types.NewCoins"] = func(st *State, fr *frame, a []value, cc *ssa.CallCommon) value {
		in := a[0].([]value)
		if len(in) != 1 {
			panic(pathEnd{kind: "unsupported", msg: "NewCoins with != 1 coin in prototype"})
		}
		c := in[0].(structure)
		if st.decide(Eq(c[1].(*bigV).v, IntConst(big.NewInt(0)))) {
			return []value{}
		}
		return []value{c}
	}
	m["github.com/cosmos/ibc-go/v8/modules/core/04-channel/types.IsValidChannelID"] = func(st *State, fr *frame, a []value, cc *ssa.CallCommon) value {
		s := a[0].(*Str)
		const pre = "channel-"
		ok := And(BVCmp("bvuge", s.Len, BVConstI(9, 64)), BVCmp("bvule", s.Len, BVConstI(28, 64)))
		for k := 0; k < len(pre); k++ {
			ok = And(ok, Eq(s.at(k), BVConstI(int64(pre[k]), 8)))
		}
		for k := 8; k < 28 && k < len(s.B); k++ {
			in := BVCmp("bvult", BVConstI(int64(k), 64), s.Len)
			dig := And(BVCmp("bvuge", s.at(k), BVConstI('0', 8)), BVCmp("bvule", s.at(k), BVConstI('9', 8)))
			ok = And(ok, Or(Not(in), dig))
		}
		// 20-digit numbers must be <= 18446744073709551615 (lexicographic compare on equal length)
		const max = "18446744073709551615"
		le := True // suffix compare, built from the last digit backwards
		for k := 19; k >= 0; k-- {
			d := s.at(8 + k)
			m := BVConstI(int64(max[k]), 8)
			le = Or(BVCmp("bvult", d, m), And(Eq(d, m), le))
		}
		ok = And(ok, Or(Not(Eq(s.Len, BVConstI(28, 64))), le))
		return ok
	}
	SDK := "github.com/cosmos/cosmos-sdk/types."
	// sdk.ValidateDenom: ^[a-zA-Z][a-zA-Z0-9/:._-]{2,127}$ as a byte predicate
	denomTerm := func(d *Str) *Term {
		if s, ok := d.Concrete(); ok && d.Blob == nil {
			return BoolConst(denomRe.MatchString(s))
		}
		if d.Blob != nil {
			panic(pathEnd{kind: "unsupported", msg: "denom validation of an abstract string"})
		}
		rng := func(b *Term, lo, hi byte) *Term {
			return And(BVCmp("bvuge", b, BVConstI(int64(lo), 8)), BVCmp("bvule", b, BVConstI(int64(hi), 8)))
		}
		letter := func(b *Term) *Term { return Or(rng(b, 'a', 'z'), rng(b, 'A', 'Z')) }
		ok := And(BVCmp("bvuge", d.Len, BVConstI(3, 64)), BVCmp("bvule", d.Len, BVConstI(128, 64)))
		if len(d.B) == 0 {
			return False
		}
		ok = And(ok, letter(d.B[0]))
		for i := 1; i < len(d.B); i++ {
			b := d.B[i]
			okc := Or(letter(b), rng(b, '0', '9'))
			for _, c := range []byte("/:._-") {
				okc = Or(okc, Eq(b, BVConstI(int64(c), 8)))
			}
			ok = And(ok, Or(Not(BVCmp("bvult", BVConstI(int64(i), 64), d.Len)), okc))
		}
		return ok
	}
	denomOK := func(st *State, d *Str) bool { return st.decide(denomTerm(d)) }
	// sdk.NewCoin: validates (denom regexp, amount >= 0, amount not nil) and panics otherwise
	m[SDK+"NewCoin"] = func(st *State, fr *frame, a []value, cc *ssa.CallCommon) value {
		amt := a[1].(*bigV)
		if !denomOK(st, a[0].(*Str)) {
			panic(pathEnd{kind: "panic", msg: "sdk.NewCoin: invalid denom in " + callerName(fr) + " @ -"})
		}
		if amt.isNil {
			panic(pathEnd{kind: "panic", msg: "sdk.NewCoin: nil amount in " + callerName(fr) + " @ -"})
		}
		st.mayPanic(IntCmp("<", amt.v, IntConst(big.NewInt(0))), "sdk.NewCoin: negative amount", fr, cc.Pos())
		return structure{a[0], amt}
	}
	// sdk.NewCoins (one coin): zero coins are removed first, the rest must validate (denom, positive amount) or it panics
	m[SDK+"NewCoins"] = func(st *State, fr *frame, a []value, cc *ssa.CallCommon) value {
		in := a[0].([]value)
		if len(in) == 0 {
			return []value{}
		}
		if len(in) != 1 {
			panic(pathEnd{kind: "unsupported", msg: "NewCoins with more than one coin"})
		}
		c := in[0].(structure)
		amt := c[1].(*bigV)
		if amt.isNil {
			panic(pathEnd{kind: "panic", msg: "sdk.NewCoins: nil amount in " + callerName(fr) + " @ -"})
		}
		if st.decide(Eq(amt.v, IntConst(big.NewInt(0)))) {
			return []value{}
		}
		if !denomOK(st, c[0].(*Str)) {
			panic(pathEnd{kind: "panic", msg: "sdk.NewCoins: invalid denom in " + callerName(fr) + " @ -"})
		}
		st.mayPanic(IntCmp("<", amt.v, IntConst(big.NewInt(0))), "sdk.NewCoins: negative amount", fr, cc.Pos())
		return []value{c}
	}
	m[SDK+"ValidateDenom"] = func(st *State, fr *frame, a []value, cc *ssa.CallCommon) value {
		if denomOK(st, a[0].(*Str)) {
			return iface{}
		}
		return newErr(st, "invalid denom")
	}
	m["("+SDK+"Coin).Validate"] = func(st *State, fr *frame, a []value, cc *ssa.CallCommon) value {
		c := a[0].(structure)
		if !denomOK(st, c[0].(*Str)) {
			return newErr(st, "invalid denom")
		}
		amt := c[1].(*bigV)
		if amt.isNil {
			return newErr(st, "amount is nil")
		}
		if st.decide(IntCmp("<", amt.v, IntConst(big.NewInt(0)))) {
			return newErr(st, "negative coin amount")
		}
		return iface{}
	}
	m["("+SDK+"Coin).IsPositive"] = func(st *State, fr *frame, a []value, cc *ssa.CallCommon) value {
		amt := a[0].(structure)[1].(*bigV)
		if amt.isNil {
			panic(pathEnd{kind: "panic", msg: "Coin.IsPositive on nil amount"})
		}
		return IntCmp(">", amt.v, IntConst(big.NewInt(0)))
	}
	m["("+SDK+"Coin).IsNil"] = func(st *State, fr *frame, a []value, cc *ssa.CallCommon) value {
		return BoolConst(a[0].(structure)[1].(*bigV).isNil)
	}
	m["("+SDK+"Coin).IsZero"] = func(st *State, fr *frame, a []value, cc *ssa.CallCommon) value {
		amt := a[0].(structure)[1].(*bigV)
		if amt.isNil {
			panic(pathEnd{kind: "panic", msg: "Coin.IsZero on nil amount"})
		}
		return Eq(amt.v, IntConst(big.NewInt(0)))
	}
	m["("+SDK+"Coin).IsNegative"] = func(st *State, fr *frame, a []value, cc *ssa.CallCommon) value {
		amt := a[0].(structure)[1].(*bigV)
		if amt.isNil {
			panic(pathEnd{kind: "panic", msg: "Coin.IsNegative on nil amount"})
		}
		return IntCmp("<", amt.v, IntConst(big.NewInt(0)))
	}
	m["github.com/cosmos/cosmos-sdk/x/auth/types.NewModuleAddress"] = func(st *State, fr *frame, a []value, cc *ssa.CallCommon) value {
		name, ok := a[0].(*Str).Concrete()
		if !ok {
			panic(pathEnd{kind: "unsupported", msg: "NewModuleAddress symbolic"})
		}
		h := sha256.Sum256([]byte(name))
		out := make([]value, 20)
		for k := range out {
			out[k] = BVConstI(int64(h[k]), 8)
		}
		return out
	}
	concBytes := func(v value) ([]byte, bool) {
		s, ok := v.([]value)
		if !ok {
			return nil, false
		}
		out := make([]byte, len(s))
		for k := range s {
			t := s[k].(*Term)
			if !t.IsConst() {
				return nil, false
			}
			out[k] = byte(t.C.Int64())
		}
		return out, true
	}
	m["("+SDK+"AccAddress).String"] = func(st *State, fr *frame, a []value, cc *ssa.CallCommon) value {
		b, ok := concBytes(a[0])
		if !ok {
			panic(pathEnd{kind: "unsupported", msg: "AccAddress.String on symbolic bytes (prototype)"})
		}
		if len(b) == 0 {
			return StrConst("")
		}
		return StrConst(bech32Encode(bechPrefix, b))
	}
	m["("+SDK+"AccAddress).Equals"] = func(st *State, fr *frame, a []value, cc *ssa.CallCommon) value {
		x, ok1 := concBytes(a[0])
		y, ok2 := concBytes(a[1].(iface).v)
		if !ok1 || !ok2 {
			panic(pathEnd{kind: "unsupported", msg: "AccAddress.Equals symbolic"})
		}
		return BoolConst(string(x) == string(y))
	}
	m[V+"KnownAddress"] = func(st *State, fr *frame, a []value, cc *ssa.CallCommon) value {
		b, ok := concBytes(a[0])
		if !ok {
			panic("verif.KnownAddress needs concrete bytes")
		}
		st.known = append(st.known, b)
		return nil
	}
	m[SDK+"AccAddressFromBech32"] = func(st *State, fr *frame, a []value, cc *ssa.CallCommon) value {
		in := a[0].(*Str)
		if in.Blob != nil {
			panic(pathEnd{kind: "unsupported", msg: "bech32 decoding of an abstract string"})
		}
		s, ok := in.Concrete()
		if !ok {
			// symbolic string: bech32 is case-insensitive but otherwise injective, so the preimage of an address is
			// exactly {lower, UPPER}. The orbiter address and the addresses registered with verif.KnownAddress are
			// matched exactly; any other string is treated as undecodable (stated assumption of the harness).
			h := sha256.Sum256([]byte("orbiter"))
			cands := append([][]byte{h[:20]}, st.known...)
			for _, c := range cands {
				lower := bech32Encode(bechPrefix, c)
				for _, cand := range []string{lower, strings.ToUpper(lower)} {
					if st.decide(StrEq(in, StrConst(cand))) {
						out := make([]value, len(c))
						for k := range out {
							out[k] = BVConstI(int64(c[k]), 8)
						}
						return tuple{out, iface{}}
					}
				}
			}
			return tuple{[]value(nil), newErr(st, "bech32")}
		}
		hrp, data, err := bech32Decode(s)
		if strings.TrimSpace(s) == "" || err != nil || hrp != bechPrefix || len(data) == 0 || len(data) > 255 {
			return tuple{[]value(nil), newErr(st, "bech32")}
		}
		out := make([]value, len(data))
		for k := range out {
			out[k] = BVConstI(int64(data[k]), 8)
		}
		return tuple{out, iface{}}
	}
	// the bech32 package itself (used directly by code that does not go through the sdk's address type): exact on
	// concrete strings, whatever their prefix; symbolic strings as in AccAddressFromBech32
	B32 := "github.com/cosmos/cosmos-sdk/types/bech32."
	bytesOf := func(v value) ([]byte, bool) {
		switch x := v.(type) {
		case []value:
			out := make([]byte, len(x))
			for i, e := range x {
				c, ok := asConcreteInt(e)
				if !ok {
					return nil, false
				}
				out[i] = byte(c)
			}
			return out, true
		case *Str:
			if cs, ok := x.Concrete(); ok && x.Blob == nil {
				return []byte(cs), true
			}
		}
		return nil, false
	}
	constBytes := func(b []byte) []value {
		out := make([]value, len(b))
		for k := range out {
			out[k] = BVConstI(int64(b[k]), 8)
		}
		return out
	}
	m[B32+"ConvertAndEncode"] = func(st *State, fr *frame, a []value, cc *ssa.CallCommon) value {
		hrp, ok1 := a[0].(*Str).Concrete()
		data, ok2 := bytesOf(a[1])
		if !ok1 || !ok2 {
			panic(pathEnd{kind: "unsupported", msg: "bech32 encoding of symbolic data"})
		}
		return tuple{StrConst(bech32Encode(hrp, data)), iface{}}
	}
	m[B32+"DecodeAndConvert"] = func(st *State, fr *frame, a []value, cc *ssa.CallCommon) value {
		in := a[0].(*Str)
		if in.Blob != nil {
			panic(pathEnd{kind: "unsupported", msg: "bech32 decoding of an abstract string"})
		}
		s, ok := in.Concrete()
		if !ok {
			h := sha256.Sum256([]byte("orbiter"))
			cands := append([][]byte{h[:20]}, st.known...)
			for _, c := range cands {
				lower := bech32Encode(bechPrefix, c)
				for _, cand := range []string{lower, strings.ToUpper(lower)} {
					if st.decide(StrEq(in, StrConst(cand))) {
						return tuple{StrConst(bechPrefix), constBytes(c), iface{}}
					}
				}
			}
			return tuple{StrConst(""), []value(nil), newErr(st, "bech32")}
		}
		hrp, data, err := bech32Decode(s)
		if err != nil {
			return tuple{StrConst(""), []value(nil), newErr(st, "bech32")}
		}
		return tuple{StrConst(hrp), constBytes(data), iface{}}
	}
	m["github.com/cosmos/cosmos-sdk/codec/types.NewAnyWithValue"] = func(st *State, fr *frame, a []value, cc *ssa.CallCommon) value {
		rt := st.funcOf(cc).Signature.Results().At(0).Type().(*types.Pointer).Elem()
		v := zero(rt).(structure)
		stt := rt.Underlying().(*types.Struct)
		for k := 0; k < stt.NumFields(); k++ {
			if stt.Field(k).Name() == "cachedValue" {
				v[k] = a[0]
			}
		}
		p := new(value)
		*p = v
		return tuple{p, iface{}}
	}
	// ---- codec blobs -------------------------------------------------------------------
	// the length of an encoded document is not free: at least the bytes of its fields, at most six times that (JSON
	// escapes) plus the keys and punctuation
	icsLen := func(st *State, data value) *Term {
		l := st.freshVar("ics20_len", BV(64))
		sum := BVConstI(0, 64)
		if sv, ok := data.(structure); ok {
			for _, f := range sv {
				if fs, ok := f.(*Str); ok {
					sum = BVBin("bvadd", sum, fs.Len)
				}
			}
		}
		st.assume(BVCmp("bvuge", l, sum))
		st.assume(BVCmp("bvule", l, BVBin("bvadd", BVBin("bvmul", sum, BVConstI(6, 64)), BVConstI(200, 64))))
		return l
	}
	m[V+"EncodeICS20"] = func(st *State, fr *frame, a []value, cc *ssa.CallCommon) value {
		return &Str{Len: icsLen(st, a[0]), Blob: icsBlob{data: copyVal(a[0])}}
	}
	m[V+"EncodeICS20Wire"] = func(st *State, fr *frame, a []value, cc *ssa.CallCommon) value {
		w, ok := asConcreteInt(a[1])
		if !ok {
			panic(pathEnd{kind: "unsupported", msg: "symbolic wire form"})
		}
		return &Str{Len: icsLen(st, a[0]), Blob: icsBlob{data: copyVal(a[0]), wire: w}}
	}
	m[V+"EncodeICS20Unknown"] = func(st *State, fr *frame, a []value, cc *ssa.CallCommon) value {
		return &Str{Len: icsLen(st, a[0]), Blob: icsBlob{data: copyVal(a[0]), unknown: true}}
	}
	m[V+"Garbage"] = func(st *State, fr *frame, a []value, cc *ssa.CallCommon) value {
		return StrConst("\x00not json") // (exactly what the native side sends)
	}
	// the same for memos: the document is at least as long as the byte fields inside the payload and not much longer
	var strLens func(v value, depth int) *Term
	strLens = func(v value, depth int) *Term {
		sum := BVConstI(0, 64)
		if depth > 12 {
			return sum
		}
		switch x := v.(type) {
		case *Str:
			if x != nil {
				sum = x.Len
			}
		case structure:
			for _, f := range x {
				sum = BVBin("bvadd", sum, strLens(f, depth+1))
			}
		case []value:
			for _, f := range x {
				sum = BVBin("bvadd", sum, strLens(f, depth+1))
			}
		case *value:
			if x != nil {
				sum = strLens(*x, depth+1)
			}
		case iface:
			sum = strLens(x.v, depth+1)
		}
		return sum
	}
	memoLen := func(st *State, wrapper value) *Term {
		l := st.freshVar("memo_len", BV(64))
		sum := strLens(wrapper, 0)
		st.assume(BVCmp("bvuge", l, BVConstI(2, 64)))
		st.assume(BVCmp("bvule", l, BVBin("bvadd", BVBin("bvmul", sum, BVConstI(6, 64)), BVConstI(8192, 64))))
		return l
	}
	m[V+"EncodeMemo"] = func(st *State, fr *frame, a []value, cc *ssa.CallCommon) value {
		n, _ := asConcreteInt(a[1])
		return &Str{Len: memoLen(st, a[0]), Blob: memoBlob{a[0], n, 0}}
	}
	m[V+"EncodeMemoTail"] = func(st *State, fr *frame, a []value, cc *ssa.CallCommon) value {
		n, _ := asConcreteInt(a[1])
		t, ok := asConcreteInt(a[2])
		if !ok {
			panic(pathEnd{kind: "unsupported", msg: "symbolic memo tail"})
		}
		return &Str{Len: memoLen(st, a[0]), Blob: memoBlob{a[0], n, t}}
	}
	m[V+"DecodeJSON"] = func(st *State, fr *frame, a []value, cc *ssa.CallCommon) value {
		mb, ok := asStr(a[0]).Blob.(memoBlob)
		if !ok || mb.extra < 0 {
			return newErr(st, "json") // (a root key in another letter case is an unknown field for the proto JSON codec)
		}
		dst := a[1].(iface).v.(*value)
		*dst = copyVal(*(mb.wrapper.(*value)))
		// ProtoCodec.UnmarshalJSON then unpacks the interfaces: the message's OWN UnpackInterfaces (orbiter code) runs
		// against a registry model built from orbiter's own RegisterInterfaces functions
		if m := st.e.prog.LookupMethod(a[1].(iface).t, nil, "UnpackInterfaces"); m != nil && m.Blocks != nil {
			r := st.callFunction(fr, m, []value{a[1].(iface).v, iface{t: registryType, v: &opaque{tag: "registry"}}}, nil)
			if e, ok := r.(iface); ok && e.t != nil {
				return e
			}
		}
		return iface{}
	}
	m["(*github.com/cosmos/cosmos-sdk/codec.ProtoCodec).UnmarshalJSON"] = func(st *State, fr *frame, a []value, cc *ssa.CallCommon) value {
		ib, ok := asStr(a[1]).Blob.(icsBlob)
		if !ok || ib.unknown {
			return newErr(st, "json") // the proto JSON codec refuses unknown fields
		}
		dst := a[2].(iface).v.(*value)
		st.decodeICS(dst, ib)
		return iface{}
	}
	m["encoding/json.Unmarshal"] = func(st *State, fr *frame, a []value, cc *ssa.CallCommon) value {
		src := asStr(a[0])
		dst := a[1].(iface).v.(*value)
		if ib, ok := src.Blob.(icsBlob); ok {
			// encoding/json into the packet struct: lenient (unknown fields ignored)
			if _, isStruct := (*dst).(structure); isStruct {
				st.decodeICS(dst, ib)
				return iface{}
			}
			return newErr(st, "json")
		}
		jsonObj := iface{t: errObjType, v: &opaque{tag: "jsonobj"}}
		mp := &mapV{}
		if mb, ok := src.Blob.(memoBlob); ok {
			if mb.tail >= 1 && mb.tail <= 3 {
				return newErr(st, "json") // encoding/json.Unmarshal validates the whole input: bytes after the top-level value
			}
			// the root key: "orbiter", or (extra < 0) a spelling that differs from it by letter case — which a decoder
			// matching field names case-insensitively (encoding/json into a struct) would take for it: -1 "ORBITER",
			// -2 "Orbiter", -3 "orbiter" AND "Orbiter"
			rootKeys := map[int][]string{-1: {"ORBITER"}, -2: {"Orbiter"}, -3: {"orbiter", "Orbiter"}}[mb.extra]
			if mb.extra >= 0 {
				rootKeys = []string{"orbiter"}
			}
			// {"orbiter": null} when the wrapper has no payload
			w := (*(mb.wrapper.(*value))).(structure)
			for _, rk := range rootKeys {
				mp.keys = append(mp.keys, StrConst(rk))
				if p, isPtr := w[0].(*value); isPtr && p == nil {
					mp.vals = append(mp.vals, iface{})
				} else {
					mp.vals = append(mp.vals, jsonObj)
				}
			}
			for k := 0; k < mb.extra; k++ {
				mp.keys = append(mp.keys, StrConst(fmt.Sprintf("extra%d", k)))
				mp.vals = append(mp.vals, jsonObj)
			}
			*dst = mp
			return iface{}
		}
		if cs, ok := src.Concrete(); ok && src.Blob == nil {
			// a concrete document: the real encoding/json decides (only map[string]any targets occur)
			var m map[string]any
			if err := json.Unmarshal([]byte(cs), &m); err != nil {
				return newErr(st, "json")
			}
			if m == nil { // "null"
				*dst = (*mapV)(nil)
				return iface{}
			}
			var ks []string
			for k := range m {
				ks = append(ks, k)
			}
			sort.Strings(ks)
			for _, k := range ks {
				mp.keys = append(mp.keys, StrConst(k))
				if m[k] == nil {
					mp.vals = append(mp.vals, iface{})
				} else {
					mp.vals = append(mp.vals, jsonObj)
				}
			}
			*dst = mp
			return iface{}
		}
		return newErr(st, "json") // abstract non-JSON bytes
	}
	m["(github.com/cosmos/ibc-go/v8/modules/core/04-channel/types.Acknowledgement).Success"] = func(st *State, fr *frame, a []value, cc *ssa.CallCommon) value {
		resp := a[0].(structure)[0].(iface)
		return BoolConst(resp.t != nil && strings.Contains(resp.t.String(), "Acknowledgement_Result"))
	}
	m["github.com/cosmos/ibc-go/v8/modules/core/04-channel/types.NewErrorAcknowledgement"] = func(st *State, fr *frame, a []value, cc *ssa.CallCommon) value {
		rt := st.funcOf(cc).Signature.Results().At(0).Type()
		ack := zero(rt).(structure)
		// Response: isAcknowledgement_Response interface; tag it with a type whose name is not ..._Result
		ack[0] = iface{t: errObjType, v: &opaque{tag: "Acknowledgement_Error"}}
		return ack
	}
	m["strconv.FormatUint"] = func(st *State, fr *frame, a []value, cc *ssa.CallCommon) value {
		if b, ok := asConcreteInt(a[1]); !ok || b != 10 {
			panic(pathEnd{kind: "unsupported", msg: "FormatUint base != 10"})
		}
		x := a[0].(*Term)
		// narrow when the value is a zero-extension of a smaller vector
		if x.Op == "zext" {
			x = x.Args[0]
		}
		return st.decimal(x)
	}
	m["strings.Split"] = func(st *State, fr *frame, a []value, cc *ssa.CallCommon) value {
		in := a[0].(*Str)
		sep, ok2 := a[1].(*Str).Concrete()
		if !ok2 || len(sep) != 1 || in.Blob != nil {
			panic(pathEnd{kind: "unsupported", msg: "strings.Split needs a one-byte separator"})
		}
		n := 0
		if in.Len.IsConst() {
			n = int(in.Len.C.Int64())
		} else {
			// symbolic length: fork on it (at most len(B)+1 cases)
			for n = 0; n < len(in.B); n++ {
				if st.decide(Eq(in.Len, BVConstI(int64(n), 64))) {
					break
				}
			}
		}
		c := BVConstI(int64(sep[0]), 8)
		var out []value
		start := 0
		for i := 0; i < n; i++ {
			if st.decide(Eq(in.B[i], c)) {
				out = append(out, &Str{B: append([]*Term{}, in.B[start:i]...), Len: BVConstI(int64(i-start), 64)})
				start = i + 1
			}
		}
		out = append(out, &Str{B: append([]*Term{}, in.B[start:n]...), Len: BVConstI(int64(n-start), 64)})
		return out
	}
	m["strings.Join"] = func(st *State, fr *frame, a []value, cc *ssa.CallCommon) value {
		sep := a[1].(*Str)
		parts := a[0].([]value)
		out := StrConst("")
		for i, p := range parts {
			if i > 0 {
				out = st.concat(out, sep)
			}
			out = st.concat(out, p.(*Str))
		}
		return out
	}
	m["strings.TrimSpace"] = func(st *State, fr *frame, a []value, cc *ssa.CallCommon) value {
		in := a[0].(*Str)
		if cs, ok := in.Concrete(); ok && in.Blob == nil {
			return StrConst(strings.TrimSpace(cs))
		}
		if in.Blob != nil {
			return in // encoded documents / decimal renderings are never blank
		}
		// symbolic bytes: exact for ASCII white space. lead = number of leading white-space bytes, trail = number of
		// trailing ones in what remains; the result is the substring at the symbolic offset lead. Where the byte at
		// either trim boundary could begin / end a multi-byte Unicode space (Go then switches to the Unicode scan), the
		// path ends unsupported and is decided natively.
		n := len(in.B)
		ws := func(b *Term) *Term {
			return Or(Eq(b, BVConstI(' ', 8)), And(BVCmp("bvuge", b, BVConstI(9, 8)), BVCmp("bvule", b, BVConstI(13, 8))))
		}
		inLen := func(i int) *Term { return BVCmp("bvult", BVConstI(int64(i), 64), in.Len) }
		sel := func(idx *Term) *Term { // in.B[idx] for a symbolic index (0 outside)
			r := BVConstI(0, 8)
			for i := n - 1; i >= 0; i-- {
				r = Ite(Eq(idx, BVConstI(int64(i), 64)), in.B[i], r)
			}
			return r
		}
		zero64 := BVConstI(0, 64)
		var lead *Term
		leadC := -1 // concrete number of leading white-space bytes (short strings: decided by forking, so that the result's bytes are the input's bytes and not selections at a symbolic offset)
		if n <= 16 {
			leadC = 0
			for leadC < n && st.decide(And(inLen(leadC), ws(in.B[leadC]))) {
				leadC++
			}
			lead = BVConstI(int64(leadC), 64)
		} else {
			// lead is the unique L with: L <= len, bytes below L are white space, the byte at L (if any) is not.
			// Introduced as a fresh variable with these defining constraints (linear size) instead of a nested term.
			lead = st.freshVar("trim_lead", BV(64))
			st.assume(BVCmp("bvule", lead, in.Len))
			st.assume(BVCmp("bvule", lead, BVConstI(int64(n), 64))) // bytes beyond the modelled ones read as 0: not white space
			for i := 0; i < n; i++ {
				st.assume(Or(Not(BVCmp("bvult", BVConstI(int64(i), 64), lead)), ws(in.B[i])))
			}
			st.assume(Or(Not(BVCmp("bvult", lead, in.Len)), Not(ws(sel(lead)))))
		}
		// trail is the unique T with: lead+T <= len, the last T bytes are white space, the byte before them (if it is
		// to the right of the leading run) is not.
		trail := st.freshVar("trim_trail", BV(64))
		st.assume(BVCmp("bvule", trail, BVBin("bvsub", in.Len, lead)))
		st.assume(Or(BVCmp("bvule", in.Len, BVConstI(int64(n), 64)), Eq(trail, zero64)))
		cut := BVBin("bvsub", in.Len, trail) // index of the first trimmed trailing byte
		for i := 0; i < n; i++ {
			ci := BVConstI(int64(i), 64)
			st.assume(Or(Not(And(BVCmp("bvuge", ci, cut), BVCmp("bvult", ci, in.Len))), ws(in.B[i])))
		}
		st.assume(Or(Not(BVCmp("bvult", lead, cut)), Not(ws(sel(BVBin("bvsub", cut, BVConstI(1, 64)))))))
		outLen := BVBin("bvsub", BVBin("bvsub", in.Len, lead), trail)
		nonEmpty := Not(Eq(outLen, zero64))
		first := sel(lead)
		last := sel(BVBin("bvsub", cut, BVConstI(1, 64)))
		isAny := func(b *Term, vals ...int64) *Term {
			r := False
			for _, v := range vals {
				r = Or(r, Eq(b, BVConstI(v, 8)))
			}
			return r
		}
		uniLead := isAny(first, 0xC2, 0xE1, 0xE2, 0xE3)
		uniTrail := Or(And(BVCmp("bvuge", last, BVConstI(0x80, 8)), BVCmp("bvule", last, BVConstI(0x8A, 8))), isAny(last, 0x9F, 0xA0, 0xA8, 0xA9, 0xAF))
		if st.decide(And(nonEmpty, Or(uniLead, uniTrail))) {
			panic(pathEnd{kind: "unsupported", msg: "strings.TrimSpace with a possible multi-byte Unicode space at the trim boundary"})
		}
		out := &Str{Len: outLen}
		if leadC >= 0 {
			out.B = append(out.B, in.B[leadC:]...)
			return out
		}
		for i := 0; i < n; i++ {
			out.B = append(out.B, sel(BVBin("bvadd", lead, BVConstI(int64(i), 64))))
		}
		return out
	}
	m["("+C+"Item[V]).Get"] = func(st *State, fr *frame, a []value, cc *ssa.CallCommon) value {
		vt := st.curFn.Signature.Results().At(0).Type()
		return tuple{zero(vt), newErr(st, "collections.ErrNotFound")}
	}
	m[C+"NewItem"] = func(st *State, fr *frame, a []value, cc *ssa.CallCommon) value {
		return zero(st.curFn.Signature.Results().At(0).Type())
	}
	m["errors.New"] = func(st *State, fr *frame, a []value, cc *ssa.CallCommon) value {
		sk, lv := strText(st, a[0])
		return newErrText(st, "errors.New", sk, lv)
	}
	m["fmt.Errorf"] = func(st *State, fr *frame, a []value, cc *ssa.CallCommon) value {
		sk, lv := st.fmtText(a[0].(*Str), a[1].([]value))
		return newErrText(st, "fmt.Errorf", sk, lv)
	}
	m["internal/stringslite.Clone"] = func(st *State, fr *frame, a []value, cc *ssa.CallCommon) value { return a[0] }
	m["strconv.cloneString"] = func(st *State, fr *frame, a []value, cc *ssa.CallCommon) value { return a[0] }
	m["github.com/cosmos/gogoproto/proto.EnumName"] = func(st *State, fr *frame, a []value, cc *ssa.CallCommon) value {
		// the name is a function of (table, number): a text term, so that two renderings of the same number are the same text
		k := st.newKeyB()
		k.w("EnumName(")
		k.content(a[0])
		k.w(",")
		k.content(a[1])
		k.w(")")
		return st.newText(k.sb.String(), k.leaves)
	}
	// fmt.Sprintf for constant formats made of %d and %s
	m["fmt.Sprintf"] = func(st *State, fr *frame, a []value, cc *ssa.CallCommon) value {
		f, ok := a[0].(*Str).Concrete()
		if !ok {
			panic(pathEnd{kind: "unsupported", msg: "Sprintf symbolic format"})
		}
		args := a[1].([]value)
		for _, x := range args {
			if xi, ok := x.(iface); ok {
				if xs, ok := xi.v.(*Str); ok && xs != nil && xs.Blob != nil {
					// an abstract text among the operands: the result is a text term, not a byte vector
					sk, lv := st.fmtText(a[0].(*Str), args)
					return st.newText(sk, lv)
				}
			}
		}
		out := StrConst("")
		ai := 0
		for i := 0; i < len(f); i++ {
			if f[i] != '%' {
				out = st.concat(out, StrConst(string(f[i])))
				continue
			}
			i++
			arg := args[ai].(iface)
			ai++
			dT, isT := arg.v.(*Term)
			sT, isS := arg.v.(*Str)
			switch {
			case i >= len(f):
				sk, lv := st.fmtText(a[0].(*Str), args)
				return st.newText(sk, lv)
			case f[i] == 'd' && isT:
				out = st.concat(out, st.decimal(dT))
			case f[i] == 's' && isS:
				out = st.concat(out, sT)
			default:
				// any other verb (%v, %q, %x, widths, ...): the text is not modelled — an abstract string whose bytes
				// exist only natively (code that inspects them ends the path; log lines and error texts do not)
				sk, lv := st.fmtText(a[0].(*Str), args)
				return st.newText(sk, lv)
			}
		}
		return out
	}
	addCollections(m)
	addDeterminism(m)
	withEnv(m)
	return m
}

// decimal renders an unsigned bv term as decimal digits. The digits are fresh byte variables tied to x
// by the defining relation x = sum d_i*10^i (0 <= d_i <= 9, leading digit non-zero), which determines
// them uniquely; this is far cheaper for the solvers than udiv/urem terms. Forks on the digit count.
func (st *State) decimal(x *Term) *Str {
	w := x.S.W
	if x.IsConst() {
		return StrConst(x.C.String())
	}
	// the same term renders to the same digits (functional summary)
	if st.decCache == nil {
		st.decCache = map[int]*Str{}
	}
	if r, ok := st.decCache[x.id]; ok {
		return r
	}
	var result *Str
	defer func() {
		if result != nil {
			st.decCache[x.id] = result
		}
	}()
	maxDigits := len(mask(w).String())
	nd := maxDigits
	p := big.NewInt(10)
	for d := 1; d < maxDigits; d++ {
		if st.decide(BVCmp("bvult", x, BVConst(p, w))) {
			nd = d
			break
		}
		p = new(big.Int).Mul(p, big.NewInt(10))
	}
	ww := w + 4 // head-room so the sum cannot wrap
	sum := BVConstI(0, ww)
	pow := big.NewInt(1)
	digits := make([]*Term, nd)
	for i := nd - 1; i >= 0; i-- {
		d := st.freshVar("digit", BV(8))
		st.assume(BVCmp("bvule", d, BVConstI(9, 8)))
		if i == 0 && nd > 1 {
			st.assume(BVCmp("bvuge", d, BVConstI(1, 8)))
		}
		digits[i] = BVBin("bvadd", d, BVConstI('0', 8))
		sum = BVBin("bvadd", sum, BVBin("bvmul", Resize(d, ww, false), BVConst(pow, ww)))
		pow = new(big.Int).Mul(pow, big.NewInt(10))
	}
	st.assume(Eq(sum, Resize(x, ww, false)))
	result = &Str{B: digits, Len: BVConstI(int64(nd), 64)}
	return result
}

func callerName(fr *frame) string {
	if fr == nil {
		return "?"
	}
	return fr.fn.String()
}

// asStr views a string or byte slice value as a Str.
var parseCoinRe = regexp.MustCompile(`^([0-9]+(?:\.[0-9]+)?|\.[0-9]+)\s*([a-zA-Z][a-zA-Z0-9/:._-]{2,127})$`)

func asStr(v value) *Str {
	switch x := v.(type) {
	case *Str:
		return x
	case []value:
		s := &Str{Len: BVConstI(int64(len(x)), 64)}
		for _, b := range x {
			s.B = append(s.B, b.(*Term))
		}
		return s
	}
	panic(pathEnd{kind: "unsupported", msg: fmt.Sprintf("string view of %T", v)})
}

// valString renders a value by the identity of its terms (hash-consed: equal terms, equal text).
func valString(v value) string {
	switch x := v.(type) {
	case *Term:
		if x.IsConst() {
			return "c" + x.C.String()
		}
		return fmt.Sprintf("t%d", x.id)
	case *Str:
		return "s(" + strKey(x) + ")"
	case *bigV:
		if x.isNil {
			return "nilint"
		}
		return "i" + valString(x.v)
	case structure:
		var p []string
		for _, f := range x {
			p = append(p, valString(f))
		}
		return "{" + strings.Join(p, ",") + "}"
	case array:
		var p []string
		for _, f := range x {
			p = append(p, valString(f))
		}
		return "[" + strings.Join(p, ",") + "]"
	case *value:
		if x == nil {
			return "nil"
		}
		return "&" + valString(*x)
	case nil:
		return "nil"
	}
	return fmt.Sprintf("%T", v)
}

// strKey identifies a string value by its content terms (hash-consed), for functional summaries.
func strKey(s *Str) string {
	var sb strings.Builder
	fmt.Fprintf(&sb, "L%d", s.Len.id)
	if s.Len.IsConst() {
		fmt.Fprintf(&sb, "=%s", s.Len.C)
	}
	for _, b := range s.B {
		if b.IsConst() {
			fmt.Fprintf(&sb, ",c%s", b.C)
		} else {
			fmt.Fprintf(&sb, ",%d", b.id)
		}
	}
	if s.Blob != nil {
		fmt.Fprintf(&sb, "|%T%v", s.Blob, s.Blob)
	}
	return sb.String()
}

func decodeModel(m map[string]string) map[string]string {
	// collapse string bytes into a quoted string for readability
	out := map[string]string{}
	type sv struct {
		n     int
		bytes map[int]byte
	}
	strs := map[string]*sv{}
	num := func(v string) (uint64, bool) {
		// forms: ((name #x..)) or ((name (_ bvN w)))
		i := strings.Index(v, "#x")
		if i >= 0 {
			j := strings.IndexAny(v[i+2:], ") ")
			x, err := strconv.ParseUint(v[i+2:i+2+j], 16, 64)
			return x, err == nil
		}
		i = strings.Index(v, "#b")
		if i >= 0 {
			j := strings.IndexAny(v[i+2:], ") ")
			x, err := strconv.ParseUint(v[i+2:i+2+j], 2, 64)
			return x, err == nil
		}
		i = strings.Index(v, "(_ bv")
		if i >= 0 {
			j := strings.Index(v[i+5:], " ")
			x, err := strconv.ParseUint(v[i+5:i+5+j], 10, 64)
			return x, err == nil
		}
		return 0, false
	}
	for k, v := range m {
		us := strings.Index(k, "_")
		base := k[us+1:]
		if strings.HasSuffix(base, "_len") {
			n, _ := num(v)
			b := strings.TrimSuffix(base, "_len")
			if strs[b] == nil {
				strs[b] = &sv{bytes: map[int]byte{}}
			}
			strs[b].n = int(n)
			continue
		}
		if i := strings.LastIndex(base, "_b"); i >= 0 {
			if idx, err := strconv.Atoi(base[i+2:]); err == nil {
				b := base[:i]
				if strs[b] == nil {
					strs[b] = &sv{bytes: map[int]byte{}}
				}
				n, _ := num(v)
				strs[b].bytes[idx] = byte(n)
				continue
			}
		}
		n, ok := num(v)
		if ok {
			out[base] = fmt.Sprint(n)
		} else {
			out[base] = v
		}
	}
	for b, s := range strs {
		bs := make([]byte, s.n)
		for i := range bs {
			bs[i] = s.bytes[i]
		}
		out[b] = strconv.Quote(string(bs))
	}
	return out
}

// parseVal extracts the numeric value from a get-value answer "((term value))".
func parseVal(ans string, t *Term) *big.Int {
	if t != nil && t.IsConst() {
		return new(big.Int).Set(t.C)
	}
	ans = strings.TrimSpace(ans)
	// strip outer "((" ... "))" and the echoed term
	inner := strings.TrimSuffix(strings.TrimPrefix(ans, "(("), "))")
	sp := strings.Index(inner, " ")
	v := strings.TrimSpace(inner[sp+1:])
	switch {
	case v == "true":
		return big.NewInt(1)
	case v == "false":
		return big.NewInt(0)
	case strings.HasPrefix(v, "#x"):
		x, _ := new(big.Int).SetString(v[2:], 16)
		return x
	case strings.HasPrefix(v, "#b"):
		x, _ := new(big.Int).SetString(v[2:], 2)
		return x
	case strings.HasPrefix(v, "(_ bv"):
		f := strings.Fields(v[5:])
		x, _ := new(big.Int).SetString(f[0], 10)
		return x
	case strings.HasPrefix(v, "(-"):
		x, _ := new(big.Int).SetString(strings.TrimSpace(strings.TrimSuffix(v[2:], ")")), 10)
		return x.Neg(x)
	}
	x, ok := new(big.Int).SetString(v, 10)
	if !ok {
		panic("cannot parse model value: " + ans)
	}
	return x
}

// witness must be called right after a sat Check, before EndCheck.
func (st *State) witness() []WDraw {
	var out []WDraw
	for _, d := range st.draws {
		vals := st.solver.Values(d.terms)
		w := WDraw{Label: d.label, Kind: d.kind}
		switch d.kind {
		case "string":
			n := int(parseVal(vals[0], d.terms[0]).Int64())
			bs := make([]byte, n)
			for k := 0; k < n; k++ {
				bs[k] = byte(parseVal(vals[1+k], d.terms[1+k]).Int64())
			}
			w.Value = fmt.Sprintf("%x", bs)
		case "int32":
			x := parseVal(vals[0], d.terms[0])
			if x.Bit(31) == 1 {
				x.Sub(x, new(big.Int).Lsh(big.NewInt(1), 32))
			}
			w.Value = x.String()
		default:
			w.Value = parseVal(vals[0], d.terms[0]).String()
		}
		out = append(out, w)
	}
	return out
}

var denomRe = regexp.MustCompile(`^[a-zA-Z][a-zA-Z0-9/:._-]{2,127}$`)

var bechPrefix = "noble"

// setOracleConstants takes the values that need real cryptography / SDK configuration from the natively
// compiled harness binary (built from the current source) and cross-checks the engine's own bech32.
func setOracleConstants(c map[string]string) {
	if p := c["bech32_prefix"]; p != "" {
		bechPrefix = p
	}
	if want := c["module_address"]; want != "" {
		h := sha256.Sum256([]byte("orbiter"))
		if got := bech32Encode(bechPrefix, h[:20]); got != want {
			panic("engine bech32 disagrees with the native oracle: " + got + " vs " + want)
		}
	}
}


// decodeICS writes decoded ICS-20 packet data into a decoder's target. Neither jsonpb nor encoding/json resets the
// target: a field that is absent from the document (wire forms 0 and 2 omit empty fields, as ibc-go's own encoder does)
// keeps whatever the target held.
func (st *State) decodeICS(dst *value, ib icsBlob) {
	nw := copyVal(ib.data).(structure)
	old, ok := (*dst).(structure)
	if ib.wire == 1 || !ok || len(old) != len(nw) {
		*dst = nw
		return
	}
	for i := range nw {
		ns, ok1 := nw[i].(*Str)
		os, ok2 := old[i].(*Str)
		if !ok1 || !ok2 {
			continue
		}
		if os.Len.IsConst() && os.Len.C.Sign() == 0 {
			continue // nothing to inherit
		}
		if st.decide(Eq(ns.Len, BVConstI(0, 64))) {
			nw[i] = os // absent from the document: the target's previous content stays
		}
	}
	*dst = nw
}
