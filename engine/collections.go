package main

// Summary of cosmossdk.io/collections (noble fork) and query.CollectionPaginate: every collection is an
// association list keyed by the Go key tuple (E3: the key codec is injective on the tuples used).
// Iteration order is insertion order (the real store iterates in encoded-key order): harnesses compare
// listings as sets. Validated on every run by native trace comparison against the real collections on a
// real IAVL store.

import (
	"fmt"
	"go/types"
	"sort"
	"strings"

	"golang.org/x/tools/go/ssa"
)

type collStore struct {
	keys []value // normalised keys (pointer fields of Pair/Triple/Quad dereferenced)
	orig []value // the key as a Go value of the key type (what callbacks receive)
	vals []value
}

type iterState struct {
	keys []value
	pos  int
}

// envOf: the store a context belongs to (verif.NewEnv gives every environment its own id).
func envOf(ctx value) int {
	for {
		switch x := ctx.(type) {
		case iface:
			ctx = x.v
			continue
		case *opaque:
			return x.id
		}
		return 0
	}
}

func (st *State) coll(name string) *collStore {
	name = fmt.Sprintf("%d/%s", st.curEnv, name)
	if st.colls == nil {
		st.colls = map[string]*collStore{}
	}
	if st.colls[name] == nil {
		st.colls[name] = &collStore{}
	}
	return st.colls[name]
}

func (st *State) snapshotColls() map[string]*collStore {
	out := map[string]*collStore{}
	for n, c := range st.colls {
		out[n] = &collStore{keys: append([]value{}, c.keys...), orig: append([]value{}, c.orig...), vals: append([]value{}, c.vals...)}
	}
	return out
}

// normKey dereferences the pointer fields of Pair/Triple/Quad keys.
func normKey(v value) value {
	if s, ok := v.(structure); ok {
		out := make(structure, len(s))
		for k := range s {
			if p, ok := s[k].(*value); ok && p != nil {
				out[k] = normKey(*p)
			} else {
				out[k] = s[k]
			}
		}
		return out
	}
	return v
}

func fieldIndex(t types.Type, name string) (int, types.Type) {
	stt, ok := t.Underlying().(*types.Struct)
	if !ok {
		return -1, nil
	}
	for k := 0; k < stt.NumFields(); k++ {
		if stt.Field(k).Name() == name {
			return k, stt.Field(k).Type()
		}
	}
	return -1, nil
}

// collName finds the humanised name of a collection value (Map/KeySet/Item directly, IndexedMap through m,
// Multi through refKeys).
func collName(t types.Type, v value) string {
	for {
		if p, ok := t.Underlying().(*types.Pointer); ok {
			pv, _ := v.(*value)
			if pv == nil {
				panic(pathEnd{kind: "panic", msg: "nil collection pointer"})
			}
			t, v = p.Elem(), *pv
			continue
		}
		break
	}
	sv, ok := v.(structure)
	if !ok {
		panic(pathEnd{kind: "unsupported", msg: fmt.Sprintf("collection value %T", v)})
	}
	if k, _ := fieldIndex(t, "name"); k >= 0 {
		n, ok := sv[k].(*Str).Concrete()
		if !ok {
			panic(pathEnd{kind: "unsupported", msg: "symbolic collection name"})
		}
		return n
	}
	for _, inner := range []string{"m", "refKeys"} {
		if k, ft := fieldIndex(t, inner); k >= 0 {
			return collName(ft, sv[k])
		}
	}
	panic(pathEnd{kind: "unsupported", msg: "collection without a name: " + t.String()})
}

func setName(t types.Type, sv structure, name value) {
	if k, _ := fieldIndex(t, "name"); k >= 0 {
		sv[k] = name
		return
	}
	for _, inner := range []string{"m", "refKeys"} {
		if k, ft := fieldIndex(t, inner); k >= 0 {
			setName(ft, sv[k].(structure), name)
			return
		}
	}
}

// nulInNonTerminal: the string key codec refuses 0x00 in a string that is not the last component of the key.
func nulInNonTerminal(key value, terminal bool) *Term {
	switch k := key.(type) {
	case *Str:
		if terminal {
			return False
		}
		r := False
		for i, b := range k.B {
			r = Or(r, And(Eq(b, BVConstI(0, 8)), BVCmp("bvult", BVConstI(int64(i), 64), k.Len)))
		}
		return r
	case structure:
		r := False
		for i, c := range k {
			r = Or(r, nulInNonTerminal(c, terminal && i == len(k)-1))
		}
		return r
	}
	return False
}

func addCollections(m map[string]intrinsic) {
	C := "cosmossdk.io/collections."
	nilIface := func(st *State, fr *frame, a []value, cc *ssa.CallCommon) value { return iface{} }
	for _, n := range []string{"PairKeyCodec", "TripleKeyCodec", "QuadKeyCodec"} {
		m[C+n] = nilIface
	}
	m["github.com/cosmos/cosmos-sdk/codec.CollValue"] = nilIface
	m[C+"NewSchemaBuilder"] = func(st *State, fr *frame, a []value, cc *ssa.CallCommon) value {
		p := new(value)
		*p = structure{}
		return p
	}
	m["(*"+C+"SchemaBuilder).Build"] = func(st *State, fr *frame, a []value, cc *ssa.CallCommon) value {
		return tuple{zero(st.curFnOr(cc).Signature.Results().At(0).Type()), iface{}}
	}
	newNamed := func(nameArg int) intrinsic {
		return func(st *State, fr *frame, a []value, cc *ssa.CallCommon) value {
			rt := st.curFn.Signature.Results().At(0).Type()
			v := zero(rt).(structure)
			setName(rt, v, a[nameArg])
			return v
		}
	}
	m[C+"NewKeySet"] = newNamed(2)
	m[C+"NewItem"] = newNamed(2)
	m[C+"NewMap"] = newNamed(2)
	m[C+"NewIndexedMap"] = func(st *State, fr *frame, a []value, cc *ssa.CallCommon) value {
		rt := st.curFn.Signature.Results().At(0).Type().(*types.Pointer).Elem()
		v := zero(rt).(structure)
		setName(rt, v, a[2])
		k, _ := fieldIndex(rt, "Indexes")
		v[k] = a[5]
		p := new(value)
		*p = v
		return p
	}
	m["cosmossdk.io/collections/indexes.NewMulti"] = func(st *State, fr *frame, a []value, cc *ssa.CallCommon) value {
		rt := st.curFn.Signature.Results().At(0).Type().(*types.Pointer).Elem()
		v := zero(rt).(structure)
		setName(rt, v, a[2])
		k, _ := fieldIndex(rt, "getRefKey")
		v[k] = a[5]
		p := new(value)
		*p = v
		return p
	}

	callClosure := func(st *State, fr *frame, c value, args ...value) value {
		cl := c.(*closure)
		if cl == nil {
			panic(pathEnd{kind: "panic", msg: "call of nil func (collections callback)"})
		}
		return st.callFunction(fr, cl.Fn, append(args, cl.Env...), nil)
	}
	encErr := func(st *State) value { return newErr(st, "collections.ErrEncoding") }
	recvName := func(st *State, recv value) string { return collName(st.curFn.Signature.Recv().Type(), recv) }

	// ---- plain map operations on a named store --------------------------------------------------
	has := func(st *State, name string, key value) (*Term, bool) { // (found, encodingError)
		nk := normKey(key)
		if st.decide(nulInNonTerminal(nk, true)) {
			return False, true
		}
		s := st.coll(name)
		found := False
		for _, k := range s.keys {
			found = Or(found, st.eq(k, nk))
		}
		return found, false
	}
	get := func(st *State, name string, key value) (value, bool, bool) { // (value, found, encodingError)
		nk := normKey(key)
		if st.decide(nulInNonTerminal(nk, true)) {
			return nil, false, true
		}
		s := st.coll(name)
		for i, k := range s.keys {
			if st.decide(st.eq(k, nk)) {
				return copyVal(s.vals[i]), true, false
			}
		}
		return nil, false, false
	}
	set := func(st *State, name string, key, val value) bool { // false: encoding error
		nk := normKey(key)
		if st.decide(nulInNonTerminal(nk, true)) {
			return false
		}
		s := st.coll(name)
		for i, k := range s.keys {
			if st.decide(st.eq(k, nk)) {
				s.vals[i] = copyVal(val)
				return true
			}
		}
		s.keys = append(s.keys, nk)
		s.orig = append(s.orig, copyVal(key))
		s.vals = append(s.vals, copyVal(val))
		return true
	}
	remove := func(st *State, name string, key value) bool {
		nk := normKey(key)
		if st.decide(nulInNonTerminal(nk, true)) {
			return false
		}
		s := st.coll(name)
		for i, k := range s.keys {
			if st.decide(st.eq(k, nk)) {
				s.keys = append(s.keys[:i:i], s.keys[i+1:]...)
				s.vals = append(s.vals[:i:i], s.vals[i+1:]...)
				s.orig = append(s.orig[:i:i], s.orig[i+1:]...)
				break
			}
		}
		return true
	}
	notFound := func(st *State) value { return newErrIs(st, "collections.ErrNotFound", "cosmossdk.io/collections.ErrNotFound") }

	// ---- KeySet ---------------------------------------------------------------------------------------
	KS := "(" + C + "KeySet[K])."
	m[KS+"Has"] = func(st *State, fr *frame, a []value, cc *ssa.CallCommon) value {
		f, bad := has(st, recvName(st, a[0]), a[2])
		if bad {
			return tuple{False, encErr(st)}
		}
		return tuple{f, iface{}}
	}
	m[KS+"Set"] = func(st *State, fr *frame, a []value, cc *ssa.CallCommon) value {
		if !set(st, recvName(st, a[0]), a[2], True) {
			return encErr(st)
		}
		return iface{}
	}
	m[KS+"Remove"] = func(st *State, fr *frame, a []value, cc *ssa.CallCommon) value {
		if !remove(st, recvName(st, a[0]), a[2]) {
			return encErr(st)
		}
		return iface{}
	}
	m[KS+"Walk"] = func(st *State, fr *frame, a []value, cc *ssa.CallCommon) value {
		if !isNilRanger(a[2]) {
			panic(pathEnd{kind: "unsupported", msg: "KeySet.Walk with a ranger"})
		}
		s := st.coll(recvName(st, a[0]))
		origs := append([]value{}, s.orig...)
		for _, k := range origs {
			r := callClosure(st, fr, a[3], copyVal(k)).(tuple)
			if e := r[1].(iface); e.t != nil {
				return e
			}
			if st.decide(r[0].(*Term)) {
				break
			}
		}
		return iface{}
	}
	m[KS+"Iterate"] = func(st *State, fr *frame, a []value, cc *ssa.CallCommon) value {
		if !isNilRanger(a[2]) {
			panic(pathEnd{kind: "unsupported", msg: "KeySet.Iterate with a ranger"})
		}
		s := st.coll(recvName(st, a[0]))
		rt := st.curFn.Signature.Results().At(0).Type()
		it := zero(rt).(structure)
		k, _ := fieldIndex(rt, "iter")
		it[k] = iface{t: errObjType, v: &opaque{tag: "iter", info: &iterState{keys: append([]value{}, s.orig...)}}}
		return tuple{it, iface{}}
	}
	iterOf := func(st *State, recv value) *iterState {
		rt := st.curFn.Signature.Recv().Type()
		k, _ := fieldIndex(rt, "iter")
		return recv.(structure)[k].(iface).v.(*opaque).info.(*iterState)
	}
	KI := "(" + C + "KeySetIterator[K])."
	m[KI+"Valid"] = func(st *State, fr *frame, a []value, cc *ssa.CallCommon) value {
		it := iterOf(st, a[0])
		return BoolConst(it.pos < len(it.keys))
	}
	m[KI+"Next"] = func(st *State, fr *frame, a []value, cc *ssa.CallCommon) value {
		iterOf(st, a[0]).pos++
		return nil
	}
	m[KI+"Key"] = func(st *State, fr *frame, a []value, cc *ssa.CallCommon) value {
		it := iterOf(st, a[0])
		if it.pos >= len(it.keys) {
			panic(pathEnd{kind: "panic", msg: "iterator Key() on an invalid iterator"})
		}
		return tuple{copyVal(it.keys[it.pos]), iface{}}
	}
	m[KI+"Close"] = func(st *State, fr *frame, a []value, cc *ssa.CallCommon) value { return iface{} }

	// ---- Item -----------------------------------------------------------------------------------------
	IT := "(" + C + "Item[V])."
	itemKey := StrConst("item")
	m[IT+"Get"] = func(st *State, fr *frame, a []value, cc *ssa.CallCommon) value {
		v, found, _ := get(st, recvName(st, a[0]), itemKey)
		if !found {
			return tuple{zero(st.curFn.Signature.Results().At(0).Type()), notFound(st)}
		}
		return tuple{v, iface{}}
	}
	m[IT+"Set"] = func(st *State, fr *frame, a []value, cc *ssa.CallCommon) value {
		set(st, recvName(st, a[0]), itemKey, a[2])
		return iface{}
	}

	// ---- IndexedMap -----------------------------------------------------------------------------------
	IM := "(*" + C + "IndexedMap[PrimaryKey, Value, Idx])."
	// the Multi indexes of an IndexedMap: every *indexes.Multi field of its Indexes struct, in field order
	multis := func(st *State, recv value) []structure {
		rt := st.curFn.Signature.Recv().Type().(*types.Pointer).Elem()
		k, it := fieldIndex(rt, "Indexes")
		idx := (*(recv.(*value))).(structure)[k].(structure)
		var out []structure
		ist := it.Underlying().(*types.Struct)
		for f := 0; f < ist.NumFields(); f++ {
			mp, ok := idx[f].(*value)
			if !ok || mp == nil {
				continue
			}
			pt, ok := ist.Field(f).Type().(*types.Pointer)
			if !ok {
				continue
			}
			if gk, _ := fieldIndex(pt.Elem(), "getRefKey"); gk < 0 {
				continue
			}
			out = append(out, structure{(*mp).(structure), &typeBox{pt.Elem()}})
		}
		return out
	}
	refOf := func(st *State, fr *frame, mu structure, pk, val value) (value, string, iface) {
		ms, mt := mu[0].(structure), mu[1].(*typeBox).t
		gk, _ := fieldIndex(mt, "getRefKey")
		r := callClosure(st, fr, ms[gk], copyVal(pk), copyVal(val)).(tuple)
		return r[0], collName(mt, ms), r[1].(iface)
	}
	pairOf := func(ref, pk value) value {
		k1, k2 := new(value), new(value)
		*k1, *k2 = copyVal(ref), copyVal(pk)
		return structure{k1, k2}
	}
	m[IM+"Get"] = func(st *State, fr *frame, a []value, cc *ssa.CallCommon) value {
		v, found, bad := get(st, recvName(st, a[0]), a[2])
		vt := st.curFn.Signature.Results().At(0).Type()
		if bad {
			return tuple{zero(vt), encErr(st)}
		}
		if !found {
			return tuple{zero(vt), notFound(st)}
		}
		return tuple{v, iface{}}
	}
	m[IM+"Has"] = func(st *State, fr *frame, a []value, cc *ssa.CallCommon) value {
		f, bad := has(st, recvName(st, a[0]), a[2])
		if bad {
			return tuple{False, encErr(st)}
		}
		return tuple{f, iface{}}
	}
	m[IM+"Set"] = func(st *State, fr *frame, a []value, cc *ssa.CallCommon) value {
		name := recvName(st, a[0])
		for _, mu := range multis(st, a[0]) {
			old, found, bad := get(st, name, a[2])
			if bad {
				return encErr(st)
			}
			if found {
				oref, iname, e := refOf(st, fr, mu, a[2], old)
				if e.t != nil {
					return e
				}
				if !remove(st, iname, pairOf(oref, a[2])) {
					return encErr(st)
				}
			}
			ref, iname, e := refOf(st, fr, mu, a[2], a[3])
			if e.t != nil {
				return e
			}
			if !set(st, iname, pairOf(ref, a[2]), True) {
				return encErr(st)
			}
		}
		if !set(st, name, a[2], a[3]) {
			return encErr(st)
		}
		return iface{}
	}
	m[IM+"Remove"] = func(st *State, fr *frame, a []value, cc *ssa.CallCommon) value {
		name := recvName(st, a[0])
		for _, mu := range multis(st, a[0]) {
			old, found, bad := get(st, name, a[2])
			if bad {
				return encErr(st)
			}
			if !found {
				return notFound(st)
			}
			oref, iname, e := refOf(st, fr, mu, a[2], old)
			if e.t != nil {
				return e
			}
			if !remove(st, iname, pairOf(oref, a[2])) {
				return encErr(st)
			}
		}
		if !remove(st, name, a[2]) {
			return encErr(st)
		}
		return iface{}
	}
	m[IM+"Walk"] = func(st *State, fr *frame, a []value, cc *ssa.CallCommon) value {
		if !isNilRanger(a[2]) {
			panic(pathEnd{kind: "unsupported", msg: "IndexedMap.Walk with a ranger"})
		}
		s := st.coll(recvName(st, a[0]))
		origs, vals := append([]value{}, s.orig...), append([]value{}, s.vals...)
		for k := range origs {
			r := callClosure(st, fr, a[3], copyVal(origs[k]), copyVal(vals[k])).(tuple)
			if e := r[1].(iface); e.t != nil {
				return e
			}
			if st.decide(r[0].(*Term)) {
				break
			}
		}
		return iface{}
	}

	// ---- query.CollectionPaginate: real option closures, real transform closure, paging ignored --------
	m["github.com/cosmos/cosmos-sdk/types/query.CollectionPaginate"] = func(st *State, fr *frame, a []value, cc *ssa.CallCommon) value {
		fn := st.curFn
		var ci iface
		if x, ok := a[1].(iface); ok {
			ci = x
		} else {
			ci = iface{t: fn.Signature.Params().At(1).Type(), v: a[1]}
		}
		if ci.t == nil {
			panic(pathEnd{kind: "panic", msg: "CollectionPaginate on a nil collection"})
		}
		name := collName(ci.t, ci.v)
		isIndex := false
		{
			t := ci.t
			if p, ok := t.Underlying().(*types.Pointer); ok {
				t = p.Elem()
			}
			if k, _ := fieldIndex(t, "getRefKey"); k >= 0 {
				isIndex = true
			}
			if k, _ := fieldIndex(t, "name"); k >= 0 && !isIndex {
				// KeySet passed by value: values are NoValue
			}
		}
		// ---- the page request (query.initPageRequestDefaults) --------------------------------------------------------
		var reqKey value // nil, or a keyToken carried by a NextKey of an earlier response
		var offset, limit uint64
		countTotal, reverse, explicit := false, false, false
		if pr, ok := a[2].(*value); ok && pr != nil {
			prT := fn.Signature.Params().At(2).Type().(*types.Pointer).Elem()
			ps := (*pr).(structure)
			num := func(field string) uint64 {
				k, _ := fieldIndex(prT, field)
				t, ok := ps[k].(*Term)
				if !ok || !t.IsConst() {
					panic(pathEnd{kind: "unsupported", msg: "CollectionPaginate with a symbolic page request (" + field + ")"})
				}
				return t.C.Uint64()
			}
			offset, limit = num("Offset"), num("Limit")
			countTotal, reverse = num("CountTotal") != 0, num("Reverse") != 0
			k, _ := fieldIndex(prT, "Key")
			switch x := ps[k].(type) {
			case *Str:
				if tok, ok := x.Blob.(keyToken); ok {
					reqKey = tok.key
				} else if c, ok := x.Concrete(); !ok || c != "" {
					panic(pathEnd{kind: "unsupported", msg: "CollectionPaginate with a page key that is not a NextKey of an earlier response"})
				}
			case []value:
				if len(x) != 0 {
					panic(pathEnd{kind: "unsupported", msg: "CollectionPaginate with a page key that is not a NextKey of an earlier response"})
				}
			}
			explicit = offset != 0 || limit != 0 || countTotal || reverse || reqKey != nil
		}
		if limit == 0 {
			limit = 100 // query.DefaultLimit; the total is counted when no limit is supplied
			countTotal = true
		}
		prT := fn.Signature.Results().At(1).Type().(*types.Pointer).Elem()
		response := func(next value, total uint64) *value {
			pr := new(value)
			rs := zero(prT).(structure)
			if next != nil {
				k, _ := fieldIndex(prT, "NextKey")
				rs[k] = &Str{Len: BVConstI(1, 64), B: []*Term{BVConstI(1, 8)}, Blob: keyToken{next}}
			}
			k, _ := fieldIndex(prT, "Total")
			rs[k] = BVConstI(int64(total), 64)
			*pr = rs
			return pr
		}
		if offset > 0 && reqKey != nil {
			return tuple{[]value(nil), (*value)(nil), newErr(st, "either offset or key is expected, got both")}
		}
		optT := fn.Signature.Params().At(4).Type().(*types.Slice).Elem().(*types.Signature).Params().At(0).Type().(*types.Pointer).Elem()
		op := new(value)
		*op = zero(optT)
		for _, o := range a[4].([]value) {
			callClosure(st, fr, o, op)
		}
		var prefix value
		if pp := (*op).(structure)[0].(*value); pp != nil {
			prefix = normKey(*pp)
		}
		s := st.coll(name)
		valT := fn.Signature.Params().At(3).Type().(*types.Signature).Params().At(1).Type()
		// entries under the prefix
		type ent struct{ key, orig, val value }
		var ents []ent
		for k := range s.keys {
			if prefix != nil {
				kc := s.keys[k].(structure)
				match := True
				for j, pc := range prefix.(structure) {
					if p, isPtr := pc.(*value); isPtr && p == nil {
						continue
					}
					match = And(match, st.eq(kc[j], pc))
				}
				if !st.decide(match) {
					continue
				}
			}
			ents = append(ents, ent{s.keys[k], s.orig[k], s.vals[k]})
		}
		// iteration order: the store iterates in encoded-key order. With concrete keys that order is computed (signed
		// integers ascending, strings bytewise); with symbolic keys only the unpaged request is summarised (insertion order,
		// harnesses compare listings as sets).
		concrete := true
		for _, e := range ents {
			if !keyConcrete(e.key) {
				concrete = false
			}
		}
		if concrete {
			sort.SliceStable(ents, func(i, j int) bool { return keyLess(ents[i].key, ents[j].key) })
			if reverse {
				for i, j := 0, len(ents)-1; i < j; i, j = i+1, j-1 {
					ents[i], ents[j] = ents[j], ents[i]
				}
			}
		} else if explicit {
			panic(pathEnd{kind: "unsupported", msg: "CollectionPaginate with a non-default page request on symbolic keys"})
		}
		transform := func(e ent) (value, iface) {
			var val value
			if t, isT := e.val.(*Term); isT && t == True {
				val = zero(valT) // NoValue
			} else {
				val = copyVal(e.val)
			}
			if isIndex {
				val = zero(valT)
			}
			r := callClosure(st, fr, a[3], copyVal(e.orig), val).(tuple)
			return r[0], r[1].(iface)
		}
		out := []value{}
		if reqKey != nil {
			// collFilteredPaginateByKey: start at the key (inclusive), in iteration order
			startAt := len(ents)
			for i, e := range ents {
				// (reverse: the paginator ends its range at PrefixEnd(prefix+key), which also takes in every key whose
				// encoding EXTENDS the requested key's — possible when the last key component is a raw string)
				if !reverse && !keyLess(e.key, reqKey) || reverse && (!keyLess(reqKey, e.key) || keyExtends(e.key, reqKey)) {
					startAt = i
					break
				}
			}
			var next value
			count := uint64(0)
			for _, e := range ents[startAt:] {
				if count == limit {
					next = e.key
					break
				}
				v, err := transform(e)
				if err.t != nil {
					return tuple{[]value(nil), (*value)(nil), err}
				}
				out = append(out, v)
				count++
			}
			return tuple{out, response(next, 0), iface{}}
		}
		// collFilteredPaginateNoKey
		if offset > uint64(len(ents)) {
			return tuple{[]value(nil), response(nil, 0), iface{}} // ErrInvalidIterator is swallowed: empty page, empty response
		}
		var next value
		count := uint64(0)
		for _, e := range ents[offset:] {
			if count < limit {
				v, err := transform(e)
				if err.t != nil {
					return tuple{[]value(nil), (*value)(nil), err}
				}
				out = append(out, v)
				count++
				continue
			}
			if count == limit {
				next = e.key
				if !countTotal {
					return tuple{out, response(next, 0), iface{}}
				}
			}
			count++
		}
		total := uint64(0)
		if countTotal {
			total = count + offset
		}
		return tuple{out, response(next, total), iface{}}
	}
}

// withEnv makes the collection intrinsics operate on the store of their context argument.
func withEnv(m map[string]intrinsic) {
	for name, in := range m {
		in := in
		switch {
		case name == "github.com/cosmos/cosmos-sdk/types/query.CollectionPaginate":
			m[name] = func(st *State, fr *frame, a []value, cc *ssa.CallCommon) value {
				st.curEnv = envOf(a[0])
				return in(st, fr, a, cc)
			}
		case strings.HasPrefix(name, "(cosmossdk.io/collections.KeySet[K])."), strings.HasPrefix(name, "(cosmossdk.io/collections.Item[V])."),
			strings.HasPrefix(name, "(*cosmossdk.io/collections.IndexedMap[PrimaryKey, Value, Idx])."):
			m[name] = func(st *State, fr *frame, a []value, cc *ssa.CallCommon) value {
				st.curEnv = envOf(a[1])
				return in(st, fr, a, cc)
			}
		}
	}
}

// keyToken is the content of a NextKey: the (normalised) key the next page starts at
type keyToken struct{ key value }

func keyConcrete(k value) bool {
	switch x := k.(type) {
	case *Term:
		return x.IsConst()
	case *Str:
		_, ok := x.Concrete()
		return ok && x.Blob == nil
	case structure:
		for _, c := range x {
			if !keyConcrete(c) {
				return false
			}
		}
		return true
	}
	return false
}

// keyLess: order of the encoded keys (collections key codecs): signed integers ascending, strings bytewise (a proper
// prefix first), tuples component by component.
func keyLess(a, b value) bool { return keyCmp(a, b) < 0 }

// keyExtends: is the encoding of key a a strict extension of the encoding of key b? Only the LAST component of a key is
// encoded without a terminator or a fixed width when it is a string; all other components must be equal.
func keyExtends(a, b value) bool {
	switch x := a.(type) {
	case *Str:
		y, ok := b.(*Str)
		if !ok {
			return false
		}
		sa, _ := x.Concrete()
		sb, _ := y.Concrete()
		return len(sa) > len(sb) && strings.HasPrefix(sa, sb)
	case structure:
		y, ok := b.(structure)
		if !ok || len(x) != len(y) || len(x) == 0 {
			return false
		}
		for i := 0; i < len(x)-1; i++ {
			if keyCmp(x[i], y[i]) != 0 {
				return false
			}
		}
		return keyExtends(x[len(x)-1], y[len(y)-1])
	}
	return false
}

func keyCmp(a, b value) int {
	switch x := a.(type) {
	case *Term:
		return x.Signed().Cmp(b.(*Term).Signed())
	case *Str:
		sa, _ := x.Concrete()
		sb, _ := b.(*Str).Concrete()
		return strings.Compare(sa, sb)
	case structure:
		y := b.(structure)
		for i := range x {
			if i >= len(y) {
				return 1
			}
			if c := keyCmp(x[i], y[i]); c != 0 {
				return c
			}
		}
		return 0
	}
	return 0
}

type typeBox struct{ t types.Type }

func isNilRanger(v value) bool {
	i, ok := v.(iface)
	return ok && i.t == nil
}
