package main

import (
	"fmt"
	"os"
	"sync"
	"time"
	"go/token"
	"go/types"
	"strings"

	"golang.org/x/tools/go/ssa"
)

// ---- path control ------------------------------------------------------------

type unsupported struct{ what string }
type pathEnd struct {
	kind string // "dead", "panic", "unsupported", "unwind"
	msg  string
	val  value // kind "panic": what recover() returns (the argument of panic(x); an opaque runtime error otherwise)
}

// inFlight is a Go panic travelling up the interpreted stack (deferred functions run; one of them may recover it).
type inFlight struct {
	pe        pathEnd
	recovered bool
}

type PassPath struct {
	Witness []WDraw
	Trace   []string
}

type Violation struct {
	Label   string
	Detail  string
	Model   map[string]string
	Path    []bool
	Witness []WDraw
	IsPanic bool
}

type WDraw struct {
	Label string `json:"label"`
	Kind  string `json:"kind"`
	Value string `json:"value"`
}

type drawRec struct {
	label, kind string
	terms       []*Term
}

type Engine struct {
	mu         sync.Mutex
	initMu     sync.Mutex
	baseGlob   map[*ssa.Global]*value
	active     int
	prog       *ssa.Program
	solver     *Solver
	intrinsics map[string]func(st *State, fr *frame, args []value, call *ssa.CallCommon) value
	work       workList
	globalsDef map[*ssa.Global]bool
	initDone   map[*ssa.Package]bool
	// stats
	Paths, Steps, Decisions int
	Outcomes                map[string]int
	Violations              []Violation
	Passes                  []PassPath
	violPaths               int
	FuncsSeen               map[string]int
	MaxSteps                int
	bodyPkgs                map[string]bool
	bounds                  map[string]int
	tier                    string
	aborted                 bool
	stopEarly               bool // a counterexample was confirmed natively: the exploration ends
	regMu                   sync.Mutex
	registered              map[string][]types.Type // interface type -> registered implementation types
	regOnce sync.Mutex
	regDone                 bool
}

type State struct {
	globMemo map[*value]*value // isolate(): pointers of the shared initial globals -> this path's copies
	panics  []*inFlight // Go panics in flight (innermost last)
	e       *Engine
	solver  *Solver
	base    bool
	prefix  []bool
	taken   []bool
	pc      []*Term
	nondet  int
	symvars []*Term
	symname []string
	globals map[*ssa.Global]*value
	steps   int
	depth   int
	initing int
	opaqueN int
	covers  map[string]bool
	curFn   *ssa.Function
	draws   []drawRec
	trace   []string
	nDecisions int
	funcs   map[string]int
	parseCache map[string]value
	stack   []string
	stores  map[string]*mapV
	pstores map[*value]*mapV
	deadline time.Time
	decCache map[int]*Str
	colls    map[string]*collStore
	pagedRequests int
	curEnv   int
	envN     int
	known    [][]byte
	syncMaps map[*value]*mapV
	atomCells map[*value]*value
	textLen   map[string]*Term
	schedule  bool // C19: the iteration order of map ranges is released (symbolic)
	mapOrders, clockReads, randReads int
}

func (st *State) curFnOr(cc *ssa.CallCommon) *ssa.Function {
	if cc != nil {
		if f := cc.StaticCallee(); f != nil {
			return f
		}
	}
	return st.curFn
}

type frame struct {
	st        *State
	fn        *ssa.Function
	env       map[ssa.Value]value
	block     *ssa.BasicBlock
	prevBlock *ssa.BasicBlock
	result    value
	defers    []func()
}

func (st *State) assume(c *Term) {
	if c.IsTrue() {
		return
	}
	if c.IsFalse() {
		panic(pathEnd{kind: "dead"})
	}
	st.pc = append(st.pc, c)
	st.solver.Push(c)
}

func (st *State) feasible(c *Term) bool {
	if !st.deadline.IsZero() && time.Now().After(st.deadline) {
		panic(pathEnd{kind: "timeout", msg: "wall-clock cap reached inside a path"})
	}
	if st.e.stopEarly {
		panic(pathEnd{kind: "stopped"})
	}
	r := st.solver.Check(c)
	st.solver.EndCheck()
	return r != "unsat"
}

// decide resolves a symbolic branch condition to a concrete direction for this path.
func (st *State) decide(c *Term) bool {
	if c.IsConst() {
		return c.IsTrue()
	}
	k := len(st.taken)
	var b bool
	if k < len(st.prefix) {
		b = st.prefix[k]
	} else {
		t := st.feasible(c)
		f := st.feasible(Not(c))
		switch {
		case t && f:
			if forkStats != nil {
				site := "?"
				if n := len(st.stack); n > 0 {
					site = st.stack[n-1]
				}
				forkMu.Lock()
				forkStats[site]++
				forkMu.Unlock()
			}
			alt := append(append([]bool{}, st.taken...), false)
			st.e.mu.Lock()
			st.e.pushWork(alt)
			st.e.mu.Unlock()
			b = true
		case t:
			b = true
		case f:
			b = false
		default:
			panic(pathEnd{kind: "dead"})
		}
	}
	st.taken = append(st.taken, b)
	st.nDecisions++
	if b {
		st.assume(c)
	} else {
		st.assume(Not(c))
	}
	return b
}

// mayPanic forks on a panic condition.
func (st *State) mayPanic(c *Term, what string, fr *frame, pos token.Pos) {
	if c.IsFalse() {
		return
	}
	if st.decide(c) {
		where := ""
		if fr != nil {
			where = fr.fn.String() + " @ " + st.e.prog.Fset.Position(pos).String()
		}
		panic(pathEnd{kind: "panic", msg: what + " in " + where})
	}
}

func (st *State) freshVar(label string, s Sort) *Term {
	st.nondet++
	// (the sort is part of the name: solver processes are reused across paths, and the k-th draw of two paths may differ in sort)
	tag := "b"
	switch s.K {
	case 1:
		tag = "i"
	case 2:
		tag = fmt.Sprintf("v%d", s.W)
	}
	name := fmt.Sprintf("nd%d_%s_%s", st.nondet, sanitize(label), tag)
	v := Var(name, s)
	st.solver.define(v)
	if st.solver.fallback != nil {
		st.solver.fallback.define(v)
	}
	st.symvars = append(st.symvars, v)
	st.symname = append(st.symname, name)
	return v
}

func sanitize(s string) string {
	var sb strings.Builder
	for _, c := range s {
		if c >= 'a' && c <= 'z' || c >= 'A' && c <= 'Z' || c >= '0' && c <= '9' || c == '_' {
			sb.WriteRune(c)
		} else {
			sb.WriteByte('_')
		}
	}
	return sb.String()
}

func (st *State) newSymString(label string, n int) *Str {
	s := &Str{Len: st.freshVar(label+"_len", BV(64))}
	st.assume(BVCmp("bvule", s.Len, BVConstI(int64(n), 64)))
	for i := 0; i < n; i++ {
		b := st.freshVar(fmt.Sprintf("%s_b%d", label, i), BV(8))
		s.B = append(s.B, b)
		// padding invariant: i >= len -> b == 0
		st.assume(Or(BVCmp("bvult", BVConstI(int64(i), 64), s.Len), Eq(b, BVConstI(0, 8))))
	}
	return s
}

// ---- evaluation ---------------------------------------------------------------

func (fr *frame) get(v ssa.Value) value {
	switch v := v.(type) {
	case nil:
		return nil
	case *ssa.Const:
		if c, ok := constCache.Load(v); ok {
			return c
		}
		c := constValue(v)
		switch c.(type) {
		case *Term, *Str:
			constCache.Store(v, c) // immutable values only
		}
		return c
	case *ssa.Function:
		return &closure{Fn: v}
	case *ssa.Builtin:
		return v
	case *ssa.Global:
		return fr.st.global(v)
	}
	if r, ok := fr.env[v]; ok {
		return r
	}
	panic(fmt.Sprintf("get: no value for %T %v in %s", v, v.Name(), fr.fn))
}

func (st *State) global(g *ssa.Global) *value {
	if p, ok := st.globals[g]; ok {
		return p
	}
	// orbiter packages: initialised once (concretely) into a table shared by all paths.
	// Assumption recorded in the evidence: package-level state of orbiter packages is read-only after init.
	if g.Pkg != nil && isOrbPkg(g.Pkg.Pkg.Path()) {
		if st.base {
			if !st.e.initDoneFor(st, g.Pkg) {
				st.runInit(g.Pkg)
				if p, ok := st.globals[g]; ok {
					return p
				}
			}
		} else {
			var p *value
			var ok bool
			func() {
				st.e.initMu.Lock()
				defer st.e.initMu.Unlock()
				if _, done := st.e.baseGlob[g.Pkg.Var("init$guard")]; !done {
					bs := &State{e: st.e, solver: st.solver, base: true, globals: st.e.baseGlob, covers: map[string]bool{}}
					func() {
						defer func() {
							if r := recover(); r != nil {
								panic(fmt.Sprintf("package initialiser of %s cannot be executed: %v", g.Pkg.Pkg.Path(), r))
							}
						}()
						bs.runInit(g.Pkg)
					}()
				}
				p, ok = st.e.baseGlob[g]
				if ok {
					// a private copy for this path (the shared table is what the initialisers left, never written again)
					if st.globMemo == nil {
						st.globMemo = map[*value]*value{}
					}
					p = isolate(p, st.globMemo).(*value)
				}
			}()
			if ok {
				st.globals[g] = p
				return p
			}
		}
	}
	p := new(value)
	et := g.Type().(*types.Pointer).Elem()
	*p = zero(et)
	if types.IsInterface(et) && et.String() == "error" {
		st.opaqueN++
		*p = iface{t: errObjType, v: &opaque{tag: "err:" + g.String(), id: -1}}
	}
	st.globals[g] = p
	return p
}

var registryType = types.NewPointer(types.NewNamed(types.NewTypeName(token.NoPos, nil, "gosx.interfaceRegistry", nil), types.NewStruct(nil, nil), nil))

var errObjType = types.NewPointer(types.NewNamed(types.NewTypeName(token.NoPos, nil, "gosx.errObj", nil), types.NewStruct(nil, nil), nil))

func (e *Engine) initDoneFor(st *State, p *ssa.Package) bool {
	_, ok := st.globals[p.Var("init$guard")]
	return ok
}

func (st *State) runInit(p *ssa.Package) {
	g := p.Var("init$guard")
	if g == nil {
		return
	}
	gp := new(value)
	*gp = False
	st.globals[g] = gp
	// pre-create zero globals of this package
	for _, m := range p.Members {
		if gv, ok := m.(*ssa.Global); ok && gv != g {
			if _, ok := st.globals[gv]; !ok {
				q := new(value)
				*q = zero(gv.Type().(*types.Pointer).Elem())
				st.globals[gv] = q
			}
		}
	}
	init := p.Func("init")
	if init == nil || init.Blocks == nil {
		*gp = True
		return
	}
	st.initing++
	defer func() { st.initing-- }()
	st.callFunction(nil, init, nil, nil)
}

type fnInfo struct {
	name   string
	in     intrinsic
	opaque bool
}

var fnCache sync.Map // *ssa.Function -> *fnInfo
var constCache sync.Map

func (e *Engine) info(fn *ssa.Function) *fnInfo {
	if x, ok := fnCache.Load(fn); ok {
		return x.(*fnInfo)
	}
	fi := &fnInfo{name: fn.String()}
	pk := fn.Pkg
	if pk == nil && fn.Origin() != nil {
		pk = fn.Origin().Pkg // instantiations of generic functions have no package of their own
	}
	if pk != nil {
		pp := pk.Pkg.Path()
		for _, pre := range []string{"cosmossdk.io/collections", "github.com/cosmos/cosmos-sdk/codec", "cosmossdk.io/store", "cosmossdk.io/core/store"} {
			if strings.HasPrefix(pp, pre) {
				fi.opaque = true
			}
		}
		if fi.opaque {
			// pure key-tuple helpers run from their bodies
			n := fn.Name()
			for _, ok := range []string{"Join", "K1", "K2", "K3", "K4", "PairPrefix", "TriplePrefix", "TripleSuperPrefix", "QuadPrefix", "QuadSuperPrefix", "QuadSuperSuperPrefix", "NewPrefix", "GetCachedValue", "Bytes"} {
				if strings.HasPrefix(n, ok) {
					fi.opaque = false
				}
			}
			if strings.Contains(fi.name, "codec/types.Any") || strings.Contains(fi.name, "codec/types.(*Any)") {
				fi.opaque = false
			}
		}
	}
	if in, ok := e.intrinsics[fi.name]; ok {
		fi.in = in
	} else if o := fn.Origin(); o != nil {
		if in, ok := e.intrinsics[o.String()]; ok {
			fi.in = in
		}
	}
	fnCache.Store(fn, fi)
	return fi
}

func (st *State) callFunction(caller *frame, fn *ssa.Function, args []value, cc *ssa.CallCommon) value {
	fi := st.e.info(fn)
	name := fi.name
	if fi.in != nil {
		st.curFn = fn
		return fi.in(st, caller, args, cc)
	}
	if st.initing > 0 && (fn.Pkg == nil || !isOrbPkg(fn.Pkg.Pkg.Path())) {
		return zero(fn.Signature.Results()) // init mode: foreign calls are skipped
	}
	if fn.Blocks == nil {
		panic(pathEnd{kind: "unsupported", msg: "no body/summary for " + name})
	}
	if fi.opaque {
		// libraries that are summarised by design: executing an un-summarised entry point from its body would run on
		// summary values (nil codecs, opaque stores) and produce artefacts; the path ends "unsupported" instead and is
		// replayed natively (concolic fallback)
		panic(pathEnd{kind: "unsupported", msg: "no summary for " + name})
	}
	if st.initing > 0 && fn.Synthetic == "package initializer" && fn.Pkg != nil {
		// nested package init: only when guard not yet set
		if st.e.initDoneFor(st, fn.Pkg) {
			if g := st.globals[fn.Pkg.Var("init$guard")]; g != nil && (*g).(*Term).IsTrue() {
				return nil
			}
		} else {
			st.runInit(fn.Pkg)
			return nil
		}
	}
	if st.funcs != nil {
		st.funcs[name]++
	}
	st.stack = append(st.stack, name)
	defer func() {
		if r := recover(); r != nil {
			if pe, ok := r.(pathEnd); ok && pe.kind == "unsupported" && !strings.Contains(pe.msg, " <- via ") {
				n := len(st.stack)
				lo := n - 3
				if lo < 0 {
					lo = 0
				}
				pe.msg += " <- via " + strings.Join(st.stack[lo:n], " < ")
				r = pe
			}
			st.stack = st.stack[:len(st.stack)-1]
			panic(r)
		}
		st.stack = st.stack[:len(st.stack)-1]
	}()
	st.depth++
	if st.depth > 200 {
		panic(pathEnd{kind: "unwind", msg: "call depth"})
	}
	defer func() { st.depth-- }()
	fr := &frame{st: st, fn: fn, env: map[ssa.Value]value{}}
	for i, p := range fn.Params {
		fr.env[p] = args[i]
	}
	for i, fv := range fn.FreeVars {
		fr.env[fv] = caller_env(args, fn, i)
	}
	for _, l := range fn.Locals {
		fr.env[l] = new(value)
	}
	fr.block = fn.Blocks[0]
	st.runFrame(fr)
	return fr.result
}

// runFrame executes the frame. A Go panic (path end of kind "panic") raised below it runs the frame's deferred calls, as
// the Go runtime does; if one of them calls recover() the panic ends there and the function returns through its
// recover block (named results as they are), otherwise the panic goes on to the caller. Unrecovered at the top of the
// harness it is a violation, as before.
func (st *State) runFrame(fr *frame) {
	defer func() {
		r := recover()
		if r == nil {
			return
		}
		pe, ok := r.(pathEnd)
		if !ok || pe.kind != "panic" || len(fr.defers) == 0 {
			panic(r)
		}
		fl := &inFlight{pe: pe}
		st.panics = append(st.panics, fl)
		func() {
			defer func() { st.panics = st.panics[:len(st.panics)-1] }()
			for len(fr.defers) > 0 {
				d := fr.defers[len(fr.defers)-1]
				fr.defers = fr.defers[:len(fr.defers)-1]
				d() // (a panic inside a deferred call replaces the one in flight: it simply propagates from here)
			}
		}()
		if !fl.recovered {
			panic(r)
		}
		// recovered: continue at the function's recover block (returns the named results), or return zero values
		fr.result = nil
		if rb := fr.fn.Recover; rb != nil {
			fr.prevBlock, fr.block = nil, rb
			for fr.block != nil {
				fr.runBlock()
			}
		} else if res := fr.fn.Signature.Results(); res.Len() == 1 {
			fr.result = zero(res.At(0).Type())
		} else if res.Len() > 1 {
			var t tuple
			for i := 0; i < res.Len(); i++ {
				t = append(t, zero(res.At(i).Type()))
			}
			fr.result = t
		}
	}()
	for fr.block != nil {
		fr.runBlock()
	}
}

// closures pass their env after the params in args (see call())
func caller_env(args []value, fn *ssa.Function, i int) value {
	return args[len(fn.Params)+i]
}

func (fr *frame) runBlock() {
	b := fr.block
	// phis
	var phis []value
	n := 0
	for _, in := range b.Instrs {
		phi, ok := in.(*ssa.Phi)
		if !ok {
			break
		}
		n++
		for i, pred := range b.Preds {
			if pred == fr.prevBlock {
				phis = append(phis, fr.get(phi.Edges[i]))
				break
			}
		}
	}
	for i := 0; i < n; i++ {
		fr.env[b.Instrs[i].(*ssa.Phi)] = phis[i]
	}
	for _, in := range b.Instrs[n:] {
		fr.st.steps++
		if fr.st.steps > fr.st.e.MaxSteps {
			panic(pathEnd{kind: "unwind", msg: "step limit"})
		}
		if fr.visit(in) {
			return
		}
	}
	panic("block fell through: " + fr.fn.String())
}

func (fr *frame) jump(to *ssa.BasicBlock) {
	fr.prevBlock, fr.block = fr.block, to
}

func asConcreteInt(v value) (int, bool) {
	t, ok := v.(*Term)
	if !ok || !t.IsConst() {
		return 0, false
	}
	return int(t.Signed().Int64()), true
}

func (fr *frame) visit(in ssa.Instruction) (jumped bool) {
	st := fr.st
	switch in := in.(type) {
	case *ssa.DebugRef:
	case *ssa.UnOp:
		fr.env[in] = fr.unop(in)
	case *ssa.BinOp:
		fr.env[in] = st.binop(in.Op, in.X.Type(), fr.get(in.X), fr.get(in.Y), fr, in.Pos())
	case *ssa.Call:
		fr.env[in] = fr.call(&in.Call)
	case *ssa.ChangeInterface:
		fr.env[in] = fr.get(in.X)
	case *ssa.ChangeType:
		fr.env[in] = fr.get(in.X)
	case *ssa.Convert:
		fr.env[in] = st.conv(in.Type(), in.X.Type(), fr.get(in.X))
	case *ssa.MakeInterface:
		fr.env[in] = iface{t: in.X.Type(), v: fr.get(in.X)}
	case *ssa.Extract:
		fr.env[in] = fr.get(in.Tuple).(tuple)[in.Index]
	case *ssa.Slice:
		fr.env[in] = fr.slice(in)
	case *ssa.Return:
		switch len(in.Results) {
		case 0:
		case 1:
			fr.result = fr.get(in.Results[0])
		default:
			var res tuple
			for _, r := range in.Results {
				res = append(res, fr.get(r))
			}
			fr.result = res
		}
		fr.block = nil
		return true
	case *ssa.RunDefers:
		for i := len(fr.defers) - 1; i >= 0; i-- {
			fr.defers[i]()
		}
		fr.defers = nil
	case *ssa.Panic:
		panic(pathEnd{kind: "panic", msg: "explicit panic in " + fr.fn.String() + " @ " + st.e.prog.Fset.Position(in.Pos()).String(), val: fr.get(in.X)})
	case *ssa.Store:
		p := fr.get(in.Addr).(*value)
		if p == nil {
			panic(pathEnd{kind: "panic", msg: "nil store in " + fr.fn.String()})
		}
		*p = copyVal(fr.get(in.Val))
	case *ssa.If:
		c := fr.get(in.Cond).(*Term)
		if st.decide(c) {
			fr.jump(fr.block.Succs[0])
		} else {
			fr.jump(fr.block.Succs[1])
		}
		return true
	case *ssa.Jump:
		fr.jump(fr.block.Succs[0])
		return true
	case *ssa.Defer:
		fn, args := fr.prepareCall(&in.Call)
		cc := &in.Call
		fr.defers = append(fr.defers, func() { fr.invoke(fn, args, cc) })
	case *ssa.Alloc:
		var addr *value
		if in.Heap {
			addr = new(value)
			fr.env[in] = addr
		} else {
			addr = fr.env[in].(*value)
		}
		*addr = zero(in.Type().Underlying().(*types.Pointer).Elem())
	case *ssa.MakeSlice:
		c, ok1 := asConcreteInt(fr.get(in.Cap))
		l, ok2 := asConcreteInt(fr.get(in.Len))
		if !ok1 || !ok2 {
			if w, _, isInt := intWidth(in.Type().Underlying().(*types.Slice).Elem()); isInt && w == 8 {
				fr.env[in] = &Str{Len: Resize(fr.get(in.Len).(*Term), 64, true)}
				return false
			}
			panic(pathEnd{kind: "unsupported", msg: "symbolic make([]T) size in " + fr.fn.String()})
		}
		s := make([]value, c)
		et := in.Type().Underlying().(*types.Slice).Elem()
		for i := range s {
			s[i] = zero(et)
		}
		fr.env[in] = s[:l]
	case *ssa.MakeMap:
		fr.env[in] = &mapV{}
	case *ssa.MapUpdate:
		m := fr.get(in.Map).(*mapV)
		st.mapSet(m, fr.get(in.Key), fr.get(in.Value))
	case *ssa.Lookup:
		fr.env[in] = fr.lookup(in)
	case *ssa.FieldAddr:
		p := fr.get(in.X).(*value)
		if p == nil {
			panic(pathEnd{kind: "panic", msg: "nil dereference (field) in " + fr.fn.String() + " @ " + st.e.prog.Fset.Position(in.Pos()).String()})
		}
		sv, isS := (*p).(structure)
		if !isS {
			panic(pathEnd{kind: "unsupported", msg: fmt.Sprintf("field access into summarised value %T in %s", *p, fr.fn)})
		}
		fr.env[in] = &sv[in.Field]
	case *ssa.Field:
		sv, isS := fr.get(in.X).(structure)
		if !isS {
			panic(pathEnd{kind: "unsupported", msg: fmt.Sprintf("field access into summarised value in %s", fr.fn)})
		}
		fr.env[in] = sv[in.Field]
	case *ssa.IndexAddr:
		fr.env[in] = fr.indexAddr(in)
	case *ssa.Index:
		x := fr.get(in.X)
		switch x := x.(type) {
		case array:
			i, ok := asConcreteInt(fr.get(in.Index))
			if !ok {
				panic(pathEnd{kind: "unsupported", msg: "symbolic array index"})
			}
			fr.env[in] = x[i]
		case *Str:
			idx := Resize(fr.get(in.Index).(*Term), 64, true)
			fr.strLenCheck(x, idx, "string index out of range", in.Pos())
			if i, ok := asConcreteInt(idx); ok {
				fr.env[in] = x.at(i)
			} else {
				r := BVConstI(0, 8)
				for i := len(x.B) - 1; i >= 0; i-- {
					r = Ite(Eq(idx, BVConstI(int64(i), 64)), x.B[i], r)
				}
				fr.env[in] = r
			}
		default:
			panic(pathEnd{kind: "unsupported", msg: fmt.Sprintf("Index on %T", x)})
		}
	case *ssa.TypeAssert:
		fr.env[in] = fr.typeAssert(in)
	case *ssa.MakeClosure:
		var bindings []value
		for _, b := range in.Bindings {
			bindings = append(bindings, fr.get(b))
		}
		fr.env[in] = &closure{Fn: in.Fn.(*ssa.Function), Env: bindings}
	case *ssa.SliceToArrayPointer:
		n := int(in.Type().Underlying().(*types.Pointer).Elem().Underlying().(*types.Array).Len())
		arr := make(array, n)
		switch x := fr.get(in.X).(type) {
		case *Str:
			st.mayPanic(BVCmp("bvult", x.Len, BVConstI(int64(n), 64)), fmt.Sprintf("cannot convert slice to array of length %d (slice too short)", n), fr, in.Pos())
			for k := 0; k < n; k++ {
				arr[k] = x.at(k)
			}
		case []value:
			if len(x) < n {
				panic(pathEnd{kind: "panic", msg: fmt.Sprintf("cannot convert slice with length %d to array of length %d in %s", len(x), n, fr.fn)})
			}
			for k := 0; k < n; k++ {
				arr[k] = x[k]
			}
		default:
			panic(pathEnd{kind: "unsupported", msg: fmt.Sprintf("SliceToArrayPointer on %T", x)})
		}
		p := new(value)
		*p = arr
		fr.env[in] = p
	case *ssa.Range:
		switch x := fr.get(in.X).(type) {
		case *mapV:
			it := &mapIter{}
			if x != nil {
				// Go leaves the iteration order open: insertion order normally, a symbolic permutation once released (C19)
				for _, j := range st.mapOrder(len(x.keys)) {
					it.keys, it.vals = append(it.keys, x.keys[j]), append(it.vals, x.vals[j])
				}
			}
			fr.env[in] = it
		case *Str:
			if x.Blob != nil {
				panic(pathEnd{kind: "unsupported", msg: "raw byte access into an encoded document"})
			}
			fr.env[in] = &strIter{s: x}
		default:
			panic(pathEnd{kind: "unsupported", msg: fmt.Sprintf("range over %T in %s", x, fr.fn)})
		}
	case *ssa.Next:
		if si, isStr := fr.get(in.Iter).(*strIter); isStr {
			fr.env[in] = fr.nextRune(si)
			break
		}
		it, ok := fr.get(in.Iter).(*mapIter)
		if !ok || in.IsString {
			panic(pathEnd{kind: "unsupported", msg: "next over a string iterator in " + fr.fn.String()})
		}
		// (iteration order of Go maps is unspecified; insertion order is one admissible order)
		tt := in.Type().(*types.Tuple)
		if it.pos < len(it.keys) {
			fr.env[in] = tuple{True, it.keys[it.pos], it.vals[it.pos]}
			it.pos++
		} else {
			fr.env[in] = tuple{False, zeroOrNil(tt.At(1).Type()), zeroOrNil(tt.At(2).Type())}
		}
	case *ssa.Go, *ssa.Select, *ssa.Send, *ssa.MakeChan:
		panic(pathEnd{kind: "unsupported", msg: fmt.Sprintf("instr %T in %s", in, fr.fn)})
	default:
		panic(fmt.Sprintf("unhandled instr %T", in))
	}
	return false
}

func (fr *frame) unop(in *ssa.UnOp) value {
	x := fr.get(in.X)
	switch in.Op {
	case token.MUL: // load
		p := x.(*value)
		if p == nil {
			panic(pathEnd{kind: "panic", msg: "nil dereference in " + fr.fn.String() + " @ " + fr.st.e.prog.Fset.Position(in.Pos()).String()})
		}
		return copyVal(*p)
	case token.NOT:
		return Not(x.(*Term))
	case token.SUB:
		return BVNeg(x.(*Term))
	case token.XOR:
		return BVNot(x.(*Term))
	}
	panic(pathEnd{kind: "unsupported", msg: "unop " + in.Op.String()})
}

func (st *State) binop(op token.Token, t types.Type, x, y value, fr *frame, pos token.Pos) value {
	switch op {
	case token.EQL:
		return st.eq(x, y)
	case token.NEQ:
		return Not(st.eq(x, y))
	}
	if xs, ok := x.(*Str); ok {
		ys := y.(*Str)
		switch op {
		case token.ADD:
			return st.concat(xs, ys)
		case token.LSS, token.LEQ, token.GTR, token.GEQ:
			a, ok1 := xs.Concrete()
			b, ok2 := ys.Concrete()
			if ok1 && ok2 {
				switch op {
				case token.LSS:
					return BoolConst(a < b)
				case token.LEQ:
					return BoolConst(a <= b)
				case token.GTR:
					return BoolConst(a > b)
				default:
					return BoolConst(a >= b)
				}
			}
		}
		panic(pathEnd{kind: "unsupported", msg: "string op " + op.String()})
	}
	a, b := x.(*Term), y.(*Term)
	if a.S.K == 0 { // bool
		switch op {
		case token.AND, token.LAND:
			return And(a, b)
		case token.OR, token.LOR:
			return Or(a, b)
		}
	}
	_, signed, ok := intWidth(t)
	if !ok {
		panic(pathEnd{kind: "unsupported", msg: "binop on " + t.String()})
	}
	su := "u"
	if signed {
		su = "s"
	}
	switch op {
	case token.ADD:
		return BVBin("bvadd", a, b)
	case token.SUB:
		return BVBin("bvsub", a, b)
	case token.MUL:
		return BVBin("bvmul", a, b)
	case token.QUO:
		st.mayPanic(Eq(b, BVConstI(0, b.S.W)), "integer divide by zero", fr, pos)
		return BVBin("bv"+su+"div", a, b)
	case token.REM:
		st.mayPanic(Eq(b, BVConstI(0, b.S.W)), "integer divide by zero", fr, pos)
		return BVBin("bv"+su+"rem", a, b)
	case token.AND:
		return BVBin("bvand", a, b)
	case token.OR:
		return BVBin("bvor", a, b)
	case token.XOR:
		return BVBin("bvxor", a, b)
	case token.AND_NOT:
		return BVBin("bvand", a, BVNot(b))
	case token.SHL, token.SHR:
		// shift count may have a different width: normalise (unsigned count)
		c := b
		if c.S.W != a.S.W {
			if c.S.W > a.S.W {
				// saturate: if count >= width result is 0/sign; approximate by comparing first
				big := BVCmp("bvuge", c, BVConstI(int64(a.S.W), c.S.W))
				cc := Resize(c, a.S.W, false)
				c = Ite(big, BVConstI(int64(a.S.W), a.S.W), cc)
			} else {
				c = Resize(c, a.S.W, false)
			}
		}
		if op == token.SHL {
			return BVBin("bvshl", a, c)
		}
		if signed {
			return BVBin("bvashr", a, c)
		}
		return BVBin("bvlshr", a, c)
	case token.LSS:
		return BVCmp("bv"+su+"lt", a, b)
	case token.LEQ:
		return BVCmp("bv"+su+"le", a, b)
	case token.GTR:
		return BVCmp("bv"+su+"gt", a, b)
	case token.GEQ:
		return BVCmp("bv"+su+"ge", a, b)
	}
	panic(pathEnd{kind: "unsupported", msg: "binop " + op.String()})
}

func (st *State) eq(x, y value) *Term {
	switch x := x.(type) {
	case *Term:
		return Eq(x, y.(*Term))
	case *Str:
		return StrEq(x, y.(*Str))
	case iface:
		yi := y.(iface)
		if x.t == nil || yi.t == nil {
			return BoolConst(x.t == nil && yi.t == nil)
		}
		if !types.Identical(x.t, yi.t) {
			return False
		}
		return st.eq(x.v, yi.v)
	case *value:
		return BoolConst(x == y.(*value))
	case structure:
		ys := y.(structure)
		r := True
		for i := range x {
			r = And(r, st.eq(x[i], ys[i]))
		}
		return r
	case array:
		ys := y.(array)
		r := True
		for i := range x {
			r = And(r, st.eq(x[i], ys[i]))
		}
		return r
	case []value:
		return BoolConst(x == nil && y.([]value) == nil) // only nil comparison is legal
	case *mapV:
		return BoolConst(x == nil && y.(*mapV) == nil)
	case *closure:
		return BoolConst(x == nil && y.(*closure) == nil)
	case *opaque:
		return BoolConst(x == y.(*opaque))
	case nil:
		return BoolConst(y == nil)
	}
	panic(pathEnd{kind: "unsupported", msg: fmt.Sprintf("eq on %T", x)})
}

func (st *State) concat(a, b *Str) *Str {
	if a.Len.IsConst() {
		n := int(a.Len.C.Int64())
		return &Str{B: append(append([]*Term{}, a.B[:n]...), b.B...), Len: BVBin("bvadd", a.Len, b.Len)}
	}
	panic(pathEnd{kind: "unsupported", msg: "concat with symbolic-length prefix"})
}

func (st *State) conv(dst, src types.Type, x value) value {
	ud, us := dst.Underlying(), src.Underlying()
	if dw, _, ok := intWidth(ud); ok {
		if _, ssigned, ok2 := intWidth(us); ok2 {
			return Resize(x.(*Term), dw, ssigned)
		}
	}
	if db, ok := ud.(*types.Basic); ok && db.Info()&types.IsString != 0 {
		switch x := x.(type) {
		case *Str:
			return x
		case []value: // []byte -> string
			s := &Str{Len: BVConstI(int64(len(x)), 64)}
			for _, b := range x {
				s.B = append(s.B, b.(*Term))
			}
			return s
		}
	}
	if _, ok := ud.(*types.Slice); ok {
		if s, ok := x.(*Str); ok { // string -> []byte
			if s.Len.IsConst() {
				n := int(s.Len.C.Int64())
				out := make([]value, n)
				for i := 0; i < n; i++ {
					out[i] = s.B[i]
				}
				return out
			}
			return s // read-only symbolic-length byte view
		}
	}
	if _, ok := ud.(*types.Pointer); ok {
		return x
	}
	panic(pathEnd{kind: "unsupported", msg: fmt.Sprintf("convert %v <- %v", dst, src)})
}

func (fr *frame) strLenCheck(s *Str, idx *Term, what string, pos token.Pos) {
	// panic if idx >= len (unsigned compare covers negatives)
	fr.st.mayPanic(BVCmp("bvuge", idx, s.Len), what, fr, pos)
}

func (fr *frame) lookup(in *ssa.Lookup) value {
	st := fr.st
	x := fr.get(in.X)
	switch x := x.(type) {
	case *Str:
		idx := fr.get(in.Index).(*Term)
		idx = Resize(idx, 64, true)
		fr.strLenCheck(x, idx, "string index out of range", in.Pos())
		if i, ok := asConcreteInt(idx); ok {
			return x.at(i)
		}
		// symbolic index: ite chain
		r := BVConstI(0, 8)
		for i := len(x.B) - 1; i >= 0; i-- {
			r = Ite(Eq(idx, BVConstI(int64(i), 64)), x.B[i], r)
		}
		return r
	case *mapV:
		key := fr.get(in.Index)
		vt := in.X.Type().Underlying().(*types.Map).Elem()
		var res value = zero(vt)
		found := false
		if x != nil {
			for i, k := range x.keys {
				if st.decide(st.eq(k, key)) {
					res, found = x.vals[i], true
					break
				}
			}
		}
		if in.CommaOk {
			return tuple{res, BoolConst(found)}
		}
		return res
	}
	panic(pathEnd{kind: "unsupported", msg: fmt.Sprintf("lookup on %T", x)})
}

func (st *State) mapSet(m *mapV, k, v value) { st.mapSetOrig(m, k, nil, v) }

func (st *State) mapSetOrig(m *mapV, k, orig, v value) {
	for i, kk := range m.keys {
		if st.decide(st.eq(kk, k)) {
			m.vals[i] = v
			return
		}
	}
	m.keys = append(m.keys, k)
	m.vals = append(m.vals, v)
	m.orig = append(m.orig, orig)
}

func (fr *frame) indexAddr(in *ssa.IndexAddr) value {
	x := fr.get(in.X)
	idx := Resize(fr.get(in.Index).(*Term), 64, true)
	switch x := x.(type) {
	case []value:
		i, ok := asConcreteInt(idx)
		if !ok {
			// symbolic index into a Go slice of concrete length: out of range is a panic obligation, in range forks over
			// the (few) positions so that the element address stays concrete
			if len(x) > 64 {
				panic(pathEnd{kind: "unsupported", msg: "symbolic slice index in " + fr.fn.String()})
			}
			fr.st.mayPanic(BVCmp("bvuge", idx, BVConstI(int64(len(x)), 64)), "index out of range", fr, in.Pos())
			for j := 0; j < len(x); j++ {
				if fr.st.decide(Eq(idx, BVConstI(int64(j), 64))) {
					return &x[j]
				}
			}
			panic(pathEnd{kind: "dead"})
		}
		if i < 0 || i >= len(x) {
			panic(pathEnd{kind: "panic", msg: "index out of range in " + fr.fn.String()})
		}
		return &x[i]
	case *value:
		i, ok := asConcreteInt(idx)
		if !ok {
			// symbolic index into (constant) array: read-only ite chain
			arr := (*x).(array)
			fr.st.mayPanic(BVCmp("bvuge", idx, BVConstI(int64(len(arr)), 64)), "array index out of range", fr, in.Pos())
			var r *Term = arr[len(arr)-1].(*Term)
			for j := len(arr) - 2; j >= 0; j-- {
				r = Ite(Eq(idx, BVConstI(int64(j), 64)), arr[j].(*Term), r)
			}
			p := new(value)
			*p = r
			return p
		}
		arr := (*x).(array)
		if i < 0 || i >= len(arr) {
			panic(pathEnd{kind: "panic", msg: "array index out of range in " + fr.fn.String()})
		}
		return &arr[i]
	case *Str: // read-only []byte view of a symbolic string
		fr.strLenCheck(x, idx, "index out of range", in.Pos())
		p := new(value)
		if i, ok := asConcreteInt(idx); ok {
			*p = x.at(i)
		} else {
			r := BVConstI(0, 8)
			for i := len(x.B) - 1; i >= 0; i-- {
				r = Ite(Eq(idx, BVConstI(int64(i), 64)), x.B[i], r)
			}
			*p = r
		}
		return p
	}
	panic(pathEnd{kind: "unsupported", msg: fmt.Sprintf("IndexAddr on %T", x)})
}

func (fr *frame) slice(in *ssa.Slice) value {
	st := fr.st
	x := fr.get(in.X)
	var lo, hi *Term
	if in.Low != nil {
		lo = Resize(fr.get(in.Low).(*Term), 64, true)
	} else {
		lo = BVConstI(0, 64)
	}
	if in.High != nil {
		hi = Resize(fr.get(in.High).(*Term), 64, true)
	}
	switch x := x.(type) {
	case *Str:
		if x.Blob != nil && (in.Low != nil || in.High != nil) {
			panic(pathEnd{kind: "unsupported", msg: "raw byte access into an encoded document"})
		}
		if hi == nil {
			hi = x.Len
		}
		// bounds: lo <= hi <= len
		st.mayPanic(Or(BVCmp("bvugt", hi, x.Len), BVCmp("bvugt", lo, hi)), "slice bounds out of range", fr, in.Pos())
		l, okl := asConcreteInt(lo)
		if !okl {
			// concretise offset by forking over feasible values
			for c := 0; c <= len(x.B); c++ {
				if st.decide(Eq(lo, BVConstI(int64(c), 64))) {
					l, okl = c, true
					break
				}
			}
			if !okl {
				panic(pathEnd{kind: "dead"})
			}
		}
		nl := BVBin("bvsub", hi, BVConstI(int64(l), 64))
		out := &Str{Len: nl}
		if h, ok := asConcreteInt(hi); ok {
			for j := l; j < h; j++ {
				out.B = append(out.B, x.at(j))
			}
			return out
		}
		// hi symbolic: bytes beyond hi must read as 0
		for j := l; j < len(x.B); j++ {
			if hi == x.Len {
				out.B = append(out.B, x.B[j])
			} else {
				out.B = append(out.B, Ite(BVCmp("bvult", BVConstI(int64(j), 64), hi), x.B[j], BVConstI(0, 8)))
			}
		}
		return out
	case []value:
		l, ok1 := asConcreteInt(lo)
		h := len(x)
		ok2 := true
		if hi != nil {
			h, ok2 = asConcreteInt(hi)
		}
		if !ok1 || !ok2 {
			// symbolic bounds: the out-of-range condition is a panic obligation like any other; in range, the bounds
			// are decided by forking over the (few) values the capacity allows
			capT := BVConstI(int64(cap(x)), 64)
			hiT := hi
			if hiT == nil {
				hiT = BVConstI(int64(len(x)), 64)
			}
			st.mayPanic(Or(BVCmp("bvugt", hiT, capT), BVCmp("bvugt", lo, hiT)), "slice bounds out of range", fr, in.Pos())
			conc := func(t *Term) int {
				if c, ok := asConcreteInt(t); ok {
					return c
				}
				for c := 0; c <= cap(x); c++ {
					if st.decide(Eq(t, BVConstI(int64(c), 64))) {
						return c
					}
				}
				panic(pathEnd{kind: "dead"})
			}
			l, h = conc(lo), conc(hiT)
		}
		if l < 0 || h > cap(x) || l > h {
			panic(pathEnd{kind: "panic", msg: "slice bounds out of range in " + fr.fn.String()})
		}
		return x[l:h]
	case *value: // *array
		arr := (*x).(array)
		l, _ := asConcreteInt(lo)
		h := len(arr)
		if hi != nil {
			h, _ = asConcreteInt(hi)
		}
		return []value(arr)[l:h]
	}
	panic(pathEnd{kind: "unsupported", msg: fmt.Sprintf("slice of %T", x)})
}

func (fr *frame) typeAssert(in *ssa.TypeAssert) value {
	x := fr.get(in.X).(iface)
	var ok bool
	var v value
	if types.IsInterface(in.AssertedType) {
		if x.t != nil {
			ok = types.Implements(x.t, in.AssertedType.Underlying().(*types.Interface))
			if x.t == errObjType {
				ok = in.AssertedType.String() == "error"
			}
		}
		if ok {
			v = x
		} else {
			v = iface{}
		}
	} else {
		ok = x.t != nil && types.Identical(x.t, in.AssertedType)
		if ok {
			v = x.v
		} else {
			v = zero(in.AssertedType)
		}
	}
	if in.CommaOk {
		return tuple{v, BoolConst(ok)}
	}
	if !ok {
		panic(pathEnd{kind: "panic", msg: "type assertion failed in " + fr.fn.String()})
	}
	return v
}

// ---- calls ---------------------------------------------------------------------

func (fr *frame) prepareCall(cc *ssa.CallCommon) (value, []value) {
	var args []value
	var fn value
	if cc.IsInvoke() {
		recv := fr.get(cc.Value).(iface)
		if recv.t == nil {
			panic(pathEnd{kind: "panic", msg: "method call on nil interface in " + fr.fn.String()})
		}
		if recv.t == errObjType {
			fn = "err." + cc.Method.Name()
			args = append(args, recv.v)
		} else if recv.t == registryType {
			fn = "registry." + cc.Method.Name()
			args = append(args, recv.v)
		} else {
			m := fr.st.e.prog.LookupMethod(recv.t, cc.Method.Pkg(), cc.Method.Name())
			if m == nil {
				panic(pathEnd{kind: "unsupported", msg: "no method " + cc.Method.Name() + " on " + recv.t.String()})
			}
			fn = &closure{Fn: m}
			args = append(args, recv.v)
		}
	} else {
		fn = fr.get(cc.Value)
	}
	for _, a := range cc.Args {
		args = append(args, fr.get(a))
	}
	return fn, args
}

func (fr *frame) call(cc *ssa.CallCommon) value {
	fn, args := fr.prepareCall(cc)
	return fr.invoke(fn, args, cc)
}

func (fr *frame) invoke(fn value, args []value, cc *ssa.CallCommon) value {
	st := fr.st
	switch fn := fn.(type) {
	case *ssa.Builtin:
		return fr.builtin(fn, args, cc)
	case *closure:
		if fn == nil {
			panic(pathEnd{kind: "panic", msg: "call of nil func in " + fr.fn.String()})
		}
		return st.callFunction(fr, fn.Fn, append(args, fn.Env...), cc)
	case goFunc:
		return fn(st, args)
	case string:
		switch fn {
		case "err.Error":
			sk, lv := st.errTextOf(iface{t: errObjType, v: args[0]})
			return st.newText(sk, lv) // a text term: bytes exist only natively
		case "registry.RegisterImplementations":
			// records (interface type -> implementation types) from the CURRENT source's RegisterInterfaces functions
			ip, ok := args[1].(iface)
			if !ok || ip.t == nil {
				return nil
			}
			it := types.Unalias(types.Unalias(ip.t).(*types.Pointer).Elem()) // (an alias names the same interface as its target)
			for _, im := range args[2].([]value) {
				if x, ok := im.(iface); ok && x.t != nil {
					st.e.regMu.Lock()
					st.e.registered[it.String()] = append(st.e.registered[it.String()], x.t)
					st.e.regMu.Unlock()
				}
			}
			return nil
		case "registry.RegisterInterface":
			return nil
		case "registry.UnpackAny":
			return st.unpackAny(args[1], args[2])
		}
	}
	panic(pathEnd{kind: "unsupported", msg: fmt.Sprintf("call of %T", fn)})
}

func (fr *frame) builtin(b *ssa.Builtin, args []value, cc *ssa.CallCommon) value {
	switch b.Name() {
	case "ssa:wrapnilchk":
		// wrapper of a value-receiver method called through a pointer: panics on a nil pointer, else returns it
		if p, ok := args[0].(*value); ok && p == nil {
			panic(pathEnd{kind: "panic", msg: "value method called using a nil pointer in " + fr.fn.String()})
		}
		return args[0]
	case "len":
		switch x := args[0].(type) {
		case *Str:
			return x.Len
		case []value:
			return BVConstI(int64(len(x)), 64)
		case array:
			return BVConstI(int64(len(x)), 64)
		case *mapV:
			if x == nil {
				return BVConstI(0, 64)
			}
			return BVConstI(int64(len(x.keys)), 64)
		}
	case "cap":
		if x, ok := args[0].([]value); ok {
			return BVConstI(int64(cap(x)), 64)
		}
	case "append":
		if args[1] == nil {
			return args[0]
		}
		if d, ok := args[0].(*Str); ok {
			// byte slices kept as strings: concatenation when both lengths are known
			s, ok2 := args[1].(*Str)
			if !ok2 || d.Blob != nil || s.Blob != nil || !d.Len.IsConst() || !s.Len.IsConst() {
				panic(pathEnd{kind: "unsupported", msg: "append on byte slices of symbolic length"})
			}
			out := &Str{Len: BVConstI(d.Len.C.Int64()+s.Len.C.Int64(), 64)}
			for i := 0; i < int(d.Len.C.Int64()); i++ {
				out.B = append(out.B, d.at(i))
			}
			for i := 0; i < int(s.Len.C.Int64()); i++ {
				out.B = append(out.B, s.at(i))
			}
			return out
		}
		if s, ok := args[1].(*Str); ok {
			c := fr.st.conv(types.NewSlice(types.Typ[types.Byte]), types.Typ[types.String], s)
			if cs, ok := c.([]value); ok {
				return append(args[0].([]value), cs...)
			}
		}
		a0, ok0 := args[0].([]value)
		a1, ok1 := args[1].([]value)
		if !ok0 || !ok1 {
			panic(pathEnd{kind: "unsupported", msg: fmt.Sprintf("append of %T to %T", args[1], args[0])})
		}
		return append(a0, a1...)
	case "copy":
		if d, ok := args[0].(*Str); ok {
			src := args[1].(*Str)
			d.B, d.Blob = src.B, src.Blob
			return d.Len
		}
		dst := args[0].([]value)
		if src, ok := args[1].([]value); ok {
			return BVConstI(int64(copy(dst, src)), 64)
		}
		if src, ok := args[1].(*Str); ok && src.Blob == nil {
			// bytes of a string / byte string into a Go slice: the number copied is min(len(dst), len(src)); a symbolic
			// source length is decided by forking over the values that matter
			n := -1
			if c, ok := asConcreteInt(src.Len); ok {
				n = c
			} else {
				for c := 0; c < len(dst); c++ {
					if fr.st.decide(Eq(src.Len, BVConstI(int64(c), 64))) {
						n = c
						break
					}
				}
				if n < 0 {
					n = len(dst) // at least as long as the destination
				}
			}
			if n > len(dst) {
				n = len(dst)
			}
			for i := 0; i < n; i++ {
				dst[i] = src.at(i)
			}
			return BVConstI(int64(n), 64)
		}
	case "print", "println":
		return nil
	case "recover":
		// (Go only honours recover() called directly by a deferred function; calls from deeper frames are not
		// distinguished here)
		if n := len(fr.st.panics); n > 0 && !fr.st.panics[n-1].recovered {
			fl := fr.st.panics[n-1]
			fl.recovered = true
			if fl.pe.val != nil {
				return fl.pe.val
			}
			return iface{t: errObjType, v: &opaque{tag: "runtime-error: " + fl.pe.msg}}
		}
		return iface{}
	case "min", "max":
	}
	panic(pathEnd{kind: "unsupported", msg: fmt.Sprintf("builtin %s on %T", b.Name(), args[0])})
}

func (st *State) funcOf(cc *ssa.CallCommon) *ssa.Function { return cc.StaticCallee() }

// ---- work list: half of the workers take the shortest decision prefix first (short inputs, loop exits: complete
// coverage of small cases early), the other half the deepest (reaches long matching inputs quickly) ----------------

type workList struct {
	buckets map[int][][]bool
	n       int
}

func (w *workList) push(p []bool) {
	if w.buckets == nil {
		w.buckets = map[int][][]bool{}
	}
	w.buckets[len(p)] = append(w.buckets[len(p)], p)
	w.n++
}

func (w *workList) pop(deep bool) []bool {
	best, found := 0, false
	for k, b := range w.buckets {
		if len(b) == 0 {
			continue
		}
		if !found || (deep && k > best) || (!deep && k < best) {
			best, found = k, true
		}
	}
	b := w.buckets[best]
	x := b[len(b)-1]
	if len(b) == 1 {
		delete(w.buckets, best)
	} else {
		w.buckets[best] = b[:len(b)-1]
	}
	w.n--
	return x
}

func (e *Engine) pushWork(p []bool)        { e.work.push(p) }
func (e *Engine) popWork(deep bool) []bool { return e.work.pop(deep) }

// isOrbPkg: packages whose initialisers are executed (orbiter's own hand-written code and the harness);
// generated API packages, test utilities and the simapp are treated like foreign modules.
func isOrbPkg(path string) bool {
	if !strings.HasPrefix(path, orb) {
		return false
	}
	rest := strings.TrimPrefix(path, orb)
	if rest == "" {
		return false // the root package is wiring glue (amino, depinject, autocli registration)
	}
	for _, skip := range []string{"/api/", "/testutil", "/simapp", "/e2e"} {
		if strings.HasPrefix(rest, skip) {
			return false
		}
	}
	return true
}

var forkStats map[string]int
var forkMu sync.Mutex

func init() {
	if os.Getenv("GOSX_FORKS") != "" {
		forkStats = map[string]int{}
	}
}

// strIter: `for i, r := range s` — position in bytes (concrete: every step decides the width of the rune it decodes).
type strIter struct {
	s   *Str
	pos int
}

// nextRune decodes one UTF-8 rune at the iterator's position, with Go's semantics (invalid or truncated encodings give
// U+FFFD and advance one byte). The class of the lead byte and the validity of the continuation bytes are decided by
// forking, so the width — and with it the next position — is concrete on every path.
func (fr *frame) nextRune(it *strIter) value {
	st := fr.st
	s := it.s
	i := it.pos
	c := func(v int64) *Term { return BVConstI(v, 8) }
	if !st.decide(BVCmp("bvult", BVConstI(int64(i), 64), s.Len)) {
		return tuple{False, BVConstI(0, 64), BVConstI(0, 32)}
	}
	b0 := s.at(i)
	r32 := func(b *Term) *Term { return Resize(b, 32, false) }
	ret := func(r *Term, w int) value {
		it.pos += w
		return tuple{True, BVConstI(int64(i), 64), r}
	}
	inStr := func(k int) *Term { return BVCmp("bvult", BVConstI(int64(i+k), 64), s.Len) }
	cont := func(k int) *Term {
		return And(inStr(k), And(BVCmp("bvuge", s.at(i+k), c(0x80)), BVCmp("bvule", s.at(i+k), c(0xBF))))
	}
	low6 := func(k int) *Term { return BVBin("bvand", r32(s.at(i+k)), BVConstI(0x3F, 32)) }
	shl := func(t *Term, n int64) *Term { return BVBin("bvshl", t, BVConstI(n, 32)) }
	if st.decide(BVCmp("bvult", b0, c(0x80))) {
		return ret(r32(b0), 1)
	}
	// two bytes: C2..DF 80..BF
	if st.decide(And(And(BVCmp("bvuge", b0, c(0xC2)), BVCmp("bvule", b0, c(0xDF))), cont(1))) {
		r := BVBin("bvor", shl(BVBin("bvand", r32(b0), BVConstI(0x1F, 32)), 6), low6(1))
		return ret(r, 2)
	}
	// three bytes: E0 A0..BF, E1..EC 80..BF, ED 80..9F, EE..EF 80..BF, then one continuation byte
	second3 := Or(Or(And(Eq(b0, c(0xE0)), BVCmp("bvuge", s.at(i+1), c(0xA0))), And(Eq(b0, c(0xED)), BVCmp("bvule", s.at(i+1), c(0x9F)))),
		And(And(BVCmp("bvuge", b0, c(0xE1)), BVCmp("bvule", b0, c(0xEF))), Not(Eq(b0, c(0xED)))))
	if st.decide(And(And(And(BVCmp("bvuge", b0, c(0xE0)), BVCmp("bvule", b0, c(0xEF))), second3), And(cont(1), cont(2)))) {
		r := BVBin("bvor", BVBin("bvor", shl(BVBin("bvand", r32(b0), BVConstI(0x0F, 32)), 12), shl(low6(1), 6)), low6(2))
		return ret(r, 3)
	}
	// four bytes: F0 90..BF, F1..F3 80..BF, F4 80..8F, then two continuation bytes
	second4 := Or(Or(And(Eq(b0, c(0xF0)), BVCmp("bvuge", s.at(i+1), c(0x90))), And(Eq(b0, c(0xF4)), BVCmp("bvule", s.at(i+1), c(0x8F)))),
		And(BVCmp("bvuge", b0, c(0xF1)), BVCmp("bvule", b0, c(0xF3))))
	if st.decide(And(And(And(BVCmp("bvuge", b0, c(0xF0)), BVCmp("bvule", b0, c(0xF4))), second4), And(cont(1), And(cont(2), cont(3))))) {
		r := BVBin("bvor", BVBin("bvor", shl(BVBin("bvand", r32(b0), BVConstI(0x07, 32)), 18), shl(low6(1), 12)), BVBin("bvor", shl(low6(2), 6), low6(3)))
		return ret(r, 4)
	}
	return ret(BVConstI(0xFFFD, 32), 1)
}

type mapIter struct {
	keys, vals []value
	pos        int
}

func zeroOrNil(t types.Type) value {
	if b, ok := t.(*types.Basic); ok && b.Kind() == types.Invalid {
		return nil
	}
	return zero(t)
}

// ensureRegistry runs orbiter's own RegisterInterfaces functions (attribute types) on a recording registry, once.
func (st *State) ensureRegistry() {
	e := st.e
	// (other workers wait until the registration is complete: a half-filled registry would refuse valid payloads)
	e.regOnce.Lock()
	defer e.regOnce.Unlock()
	if e.regDone {
		return
	}
	defer func() { e.regDone = true }()
	e.regMu.Lock()
	if e.registered == nil {
		e.registered = map[string][]types.Type{}
	}
	e.regMu.Unlock()
	reg := iface{t: registryType, v: &opaque{tag: "registry"}}
	// the module's complete registration (types.RegisterInterfaces: attribute interfaces, the components' transaction
	// messages as sdk.Msg, the controllers' attribute types), so that a type known for ONE interface is known to the
	// model too; the two attribute packages alone if the top-level function is not there
	paths := []string{orb + "/types"}
	found := false
	for round := 0; round < 2 && !found; round++ {
		for _, path := range paths {
			for _, p := range e.prog.AllPackages() {
				if p.Pkg.Path() == path {
					if f := p.Func("RegisterInterfaces"); f != nil {
						found = true
						st.callFunction(nil, f, []value{reg}, nil)
					}
				}
			}
		}
		paths = []string{orb + "/types/controller/action", orb + "/types/controller/forwarding"}
	}
}

// unpackAny is interfaceRegistry.UnpackAny on a decoded blob: nil / empty Any are accepted as they are; otherwise the
// dynamic type of the packed message must be registered for the interface the caller asks for.
func (st *State) unpackAny(anyV, target value) value {
	st.ensureRegistry()
	ap, ok := anyV.(*value)
	if !ok || ap == nil {
		return iface{}
	}
	as, ok := (*ap).(structure)
	if !ok {
		return iface{}
	}
	var cached iface
	for _, f := range as {
		if x, ok := f.(iface); ok && x.t != nil {
			cached = x
		}
	}
	if cached.t == nil {
		return iface{} // empty type URL: nothing to unpack
	}
	tp, ok := target.(iface)
	if !ok || tp.t == nil {
		return newErr(st, "UnpackAny expects a pointer")
	}
	it := types.Unalias(types.Unalias(tp.t).(*types.Pointer).Elem())
	st.e.regMu.Lock()
	impls := st.e.registered[it.String()]
	st.e.regMu.Unlock()
	for _, t := range impls {
		if types.Identical(t, cached.t) {
			if dst, ok := tp.v.(*value); ok && dst != nil {
				*dst = cached
			}
			return iface{}
		}
	}
	return newErr(st, "no concrete type registered for the type URL against the interface")
}
