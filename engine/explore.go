package main

import (
	"strconv"
	"runtime/debug"
	"fmt"
	"io"
	"os"
	"sort"
	"strings"
	"sync"
	"time"

	"golang.org/x/tools/go/ssa"
)

// HarnessSpec describes one harness function of the harness package and how to run it.
type HarnessSpec struct {
	ThoroughOnly bool // not part of the quick tier
	Name            string
	Profile         string            // "bit" (z3 first, cvc5 bv-as-int fallback) or "arith" (the reverse)
	Quick, Thorough map[string]int    // named bounds read by the harness through verif.Bound
	Covers          []string          // cover labels that must be reached (vacuity guard)
	TimeoutQuick    int               // seconds, exploration wall clock
	TimeoutThorough int
	Assumptions     []string
	Note            string
	NativeDecides   bool // C19: a native assertion failure on a path the engine passed is a counterexample (not an engine error)
	RPCCoverage     bool // C10: every Msg RPC in the current source must be covered by a "rpc:<component>.<Method>" label
}

func (h HarnessSpec) bounds(tier string) map[string]int {
	if tier == "thorough" && h.Thorough != nil {
		return h.Thorough
	}
	if h.Quick != nil {
		return h.Quick
	}
	return map[string]int{}
}

type PathRec struct {
	Witness []WDraw
	Trace   []string
	Outcome string // ok | panic
	Msg     string
}

type HarnessResult struct {
	Spec      HarnessSpec
	Tier      string
	Bounds    map[string]int
	Paths     int
	Steps     int
	Decisions int
	Outcomes  map[string]int
	Msgs      map[string]int
	Covers    map[string]int
	Funcs     map[string]int
	Queries, Sat, Unsat, Unknown, Fallbacks, Slow int
	SolverTime time.Duration
	MaxQuery   time.Duration
	Wall       time.Duration
	TimedOut   bool
	Watchdog   int // queries on which a back end ignored its time limit and was killed (answered by the other back end)
	CrossCompared int      // check-sat answers of worker 0's stream re-decided by a third solver
	CrossDisagree []string // disagreements between two definite answers
	CrossNote     string
	StoppedEarly bool // a counterexample was confirmed natively during the exploration, which then ended
	Remaining  int
	Violations []Violation
	Passes     []PathRec
	Unsupported []PathRec // paths the engine could not encode to the end: replayed natively on a solver-generated input (concolic fallback)
	EngineErr  string
	// filled by native confirmation
	Confirmed   []ConfirmedViolation
	Unconfirmed []Violation
	TracesValidated int
	TraceMismatches []string
	ConcolicRuns    int
}

type ConfirmedViolation struct {
	V      Violation
	Native string // the native trace line that confirmed it
}

// early, when not nil, is asked to replay a symbolic counterexample natively as soon as it is found; once one is confirmed
// the exploration stops (the verdict is decided: what is left could only add further counterexamples).
func explore(ld *Loaded, spec HarnessSpec, tier string, seed int64, workers int, logSMT string, early func(v Violation) bool) *HarnessResult {
	res := &HarnessResult{Spec: spec, Tier: tier, Bounds: spec.bounds(tier), Outcomes: map[string]int{}, Msgs: map[string]int{}, Covers: map[string]int{}, Funcs: map[string]int{}}
	hfn := ld.hpkg.Func(spec.Name)
	if hfn == nil {
		res.EngineErr = "harness function not found: " + spec.Name
		return res
	}
	tmo := spec.TimeoutQuick
	if tier == "thorough" {
		tmo = spec.TimeoutThorough
	}
	// The cap only protects against runs that do not end; reaching it is INCONCLUSIVE, never a pass. It is set several
	// times above the measured time so that a loaded or smaller machine does not turn a sound check into a broken one.
	floor := 900
	if tier == "thorough" {
		floor = 3600
	}
	if tmo < floor {
		tmo = floor
	}
	if v, err := strconv.Atoi(os.Getenv("GOSX_TIMEOUT")); err == nil && v > 0 {
		tmo = v
	}
	e := &Engine{prog: ld.prog, Outcomes: map[string]int{}, FuncsSeen: map[string]int{}, MaxSteps: 2000000, baseGlob: map[*ssa.Global]*value{}, bounds: res.Bounds, tier: tier}
	e.intrinsics = makeIntrinsics()
	e.pushWork([]bool{})
	t1 := time.Now()
	deadline := t1.Add(time.Duration(tmo) * time.Second)
	var wg sync.WaitGroup
	var solvers []*Solver
	var emu sync.Mutex
	restarts := 0
	for w := 0; w < workers; w++ {
		sv := newSolverPair(spec.Profile, tier, seed)
		if logSMT != "" && w == 0 {
			f, _ := os.Create(logSMT)
			sv.logLeft = 5000
			sv.log = f
		}
		solvers = append(solvers, sv)
		wg.Add(1)
		deep := w%2 == 1
		go func(sv *Solver) {
			defer wg.Done()
			defer func() {
				if r := recover(); r != nil {
					emu.Lock()
					if res.EngineErr == "" {
						res.EngineErr = fmt.Sprint(r)
					}
					emu.Unlock()
					e.mu.Lock()
					e.active--
					e.aborted = true
					e.mu.Unlock()
				}
			}()
			for {
				e.mu.Lock()
				if e.aborted || e.stopEarly {
					e.mu.Unlock()
					return
				}
				if time.Now().After(deadline) {
					if e.work.n > 0 {
						res.TimedOut = true
					}
					e.mu.Unlock()
					return
				}
				if e.work.n == 0 {
					if e.active == 0 {
						e.mu.Unlock()
						return
					}
					e.mu.Unlock()
					time.Sleep(time.Millisecond)
					continue
				}
				prefix := e.popWork(deep)
				e.active++
				e.mu.Unlock()

				st := &State{e: e, solver: sv, prefix: prefix, globals: map[*ssa.Global]*value{}, covers: map[string]bool{}, funcs: map[string]int{}, deadline: deadline}
				outcome := e.runPath(st, hfn)
				if outcome.kind == "solver-lost" {
					// restart the back ends of this worker and redo the path (at most a few times per harness)
					sv.Kill()
					sv = newSolverPair(spec.Profile, tier, seed)
					e.mu.Lock()
					solvers = append(solvers, sv)
					e.active--
					restarts++
					if restarts <= 20 {
						e.pushWork(prefix)
					} else {
						res.Outcomes["unknown"]++
						res.Msgs["unknown: solver back end lost repeatedly"]++
					}
					e.mu.Unlock()
					continue
				}
				var rec *PathRec
				if outcome.kind == "ok" || outcome.kind == "panic" || outcome.kind == "unsupported" {
					// a model of the final path condition: witness for trace validation / panic confirmation
					if sv.Check(True) == "sat" {
						rec = &PathRec{Witness: st.witness(), Trace: st.trace, Outcome: outcome.kind, Msg: outcome.msg}
					}
					sv.EndCheck()
				}
				sv.PopAll()

				e.mu.Lock()
				if rec != nil {
					if outcome.kind == "panic" {
						e.Violations = append(e.Violations, Violation{Label: "panic: " + panicSig(outcome.msg), Detail: outcome.msg, Witness: rec.Witness, Path: append([]bool{}, st.taken...), IsPanic: true})
					} else if outcome.kind == "unsupported" {
						res.Unsupported = append(res.Unsupported, *rec)
					} else {
						res.Passes = append(res.Passes, *rec)
					}
				}
				e.active--
				res.Paths++
				res.Steps += st.steps
				res.Decisions += st.nDecisions
				res.Outcomes[outcome.kind]++
				if outcome.kind == "timeout" {
					res.TimedOut = true
				}
				if outcome.kind == "stopped" {
					res.Paths--
				}
				if outcome.kind != "ok" && outcome.kind != "dead" && outcome.kind != "stopped" {
					res.Msgs[outcome.kind+": "+outcome.msg]++
				}
				for c := range st.covers {
					res.Covers[c]++
				}
				for f, n := range st.funcs {
					res.Funcs[f] += n
				}
				if res.Paths%2000 == 0 {
					fmt.Fprintf(os.Stderr, "  .. %s paths=%d work=%d elapsed=%v\n", spec.Name, res.Paths, e.work.n, time.Since(t1).Round(time.Millisecond))
				}
				e.mu.Unlock()
			}
		}(sv)
	}
	monDone := make(chan struct{})
	if early != nil {
		go func() {
			tried := map[string]int{}
			next := 0
			for {
				select {
				case <-monDone:
					return
				case <-time.After(300 * time.Millisecond):
				}
				e.mu.Lock()
				var todo []Violation
				for ; next < len(e.Violations); next++ {
					v := e.Violations[next]
					if tried[v.Label] < 2 {
						tried[v.Label]++
						todo = append(todo, v)
					}
				}
				e.mu.Unlock()
				for _, v := range todo {
					if early(v) {
						e.mu.Lock()
						e.stopEarly = true
						res.StoppedEarly = true
						e.mu.Unlock()
						return
					}
				}
			}
		}()
	}
	wg.Wait()
	close(monDone)
	res.Remaining = e.work.n
	res.Wall = time.Since(t1)
	for _, sv := range solvers {
		res.Queries += sv.Queries
		res.Sat += sv.Sat
		res.Unsat += sv.Unsat
		res.Unknown += sv.Unknown
		res.SolverTime += sv.Time
		res.Fallbacks += sv.Fallbacks
		res.Watchdog += sv.Watchdog
		res.Slow += sv.Slow
		if sv.MaxQ > res.MaxQuery {
			res.MaxQuery = sv.MaxQ
		}
		sv.Close()
	}
	res.Violations = e.Violations
	return res
}

// panicSig reduces a panic message "what in func @ file:line:col" to "what in func" (line numbers move).
func panicSig(msg string) string {
	if i := strings.Index(msg, " @ "); i >= 0 {
		msg = msg[:i]
	}
	return msg
}

func (e *Engine) runPath(st *State, fn *ssa.Function) (out pathEnd) {
	defer func() {
		if r := recover(); r != nil {
			switch r := r.(type) {
			case solverLost:
				out = pathEnd{kind: "solver-lost", msg: r.msg}
			case pathEnd:
				out = r
			case unsupported:
				out = pathEnd{kind: "unsupported", msg: r.what}
			default:
				stk := string(debug.Stack())
				if i := strings.LastIndex(stk, "panic("); i >= 0 {
					stk = stk[i:]
				}
				if len(stk) > 1500 {
					stk = stk[:1500]
				}
				panic(fmt.Sprintf("engine panic in %s: %v\n%s", fn.Name(), r, stk))
			}
		}
	}()
	st.callFunction(nil, fn, nil, nil)
	return pathEnd{kind: "ok"}
}

func (r *HarnessResult) print(w io.Writer, verbose bool) {
	fmt.Fprintf(w, "harness %s tier=%s bounds=%v profile=%s\n", r.Spec.Name, r.Tier, r.Bounds, r.Spec.Profile)
	fmt.Fprintf(w, "  paths=%d steps=%d decisions=%d outcomes=%v wall=%v timedout=%v remaining=%d\n", r.Paths, r.Steps, r.Decisions, r.Outcomes, r.Wall.Round(time.Millisecond), r.TimedOut, r.Remaining)
	fmt.Fprintf(w, "  queries=%d sat=%d unsat=%d unknown=%d fallbacks=%d watchdog=%d solver_time(sum)=%v maxquery=%v slow(>100ms)=%d\n", r.Queries, r.Sat, r.Unsat, r.Unknown, r.Fallbacks, r.Watchdog, r.SolverTime.Round(time.Millisecond), r.MaxQuery.Round(time.Millisecond), r.Slow)
	fmt.Fprintf(w, "  covers=%v\n", r.Covers)
	if forkStats != nil {
		type kv struct {
			k string
			v int
		}
		var l []kv
		for k, v := range forkStats {
			l = append(l, kv{k, v})
		}
		sort.Slice(l, func(i, j int) bool { return l[i].v > l[j].v })
		for i, x := range l {
			if i >= 15 {
				break
			}
			fmt.Fprintf(w, "  forks %6d %s\n", x.v, x.k)
		}
	}
	var ks []string
	for k := range r.Msgs {
		ks = append(ks, k)
	}
	sort.Strings(ks)
	for _, k := range ks {
		fmt.Fprintf(w, "  %5d %s\n", r.Msgs[k], k)
	}
	if r.EngineErr != "" {
		fmt.Fprintf(w, "  ENGINE ERROR: %s\n", r.EngineErr)
	}
	seen := map[string]int{}
	for _, v := range r.Violations {
		seen[v.Label]++
		if seen[v.Label] > 2 && !verbose {
			continue
		}
		fmt.Fprintf(w, "  symbolic violation %q witness=%s\n", v.Label, witnessString(v.Witness))
	}
	fmt.Fprintf(w, "  symbolic violations=%d (distinct labels %d)\n", len(r.Violations), len(seen))
}

func (r *HarnessResult) printNative(w io.Writer) {
	fmt.Fprintf(w, "  native: confirmed=%d unconfirmed=%d traces_validated=%d mismatches=%d\n", len(r.Confirmed), len(r.Unconfirmed), r.TracesValidated, len(r.TraceMismatches))
	for _, c := range r.Confirmed {
		fmt.Fprintf(w, "    CONFIRMED %q witness=%s native=%q\n", c.V.Label, witnessString(c.V.Witness), c.Native)
	}
	for _, u := range r.Unconfirmed {
		fmt.Fprintf(w, "    UNCONFIRMED %q witness=%s\n", u.Label, witnessString(u.Witness))
	}
	for i, m := range r.TraceMismatches {
		if i >= 5 {
			break
		}
		fmt.Fprintf(w, "    TRACE MISMATCH %s\n", m)
	}
}

func witnessString(ws []WDraw) string {
	var sb strings.Builder
	for i, d := range ws {
		if i > 0 {
			sb.WriteString(" ")
		}
		v := d.Value
		if d.Kind == "string" {
			v = fmt.Sprintf("%q", hexToString(v))
		}
		fmt.Fprintf(&sb, "%s=%s", d.Label, v)
	}
	s := sb.String()
	if len(s) > 600 {
		s = s[:600] + "..."
	}
	return s
}

// drawString renders one draw the way witnessString does.
func drawString(d WDraw) string {
	if d.Kind == "string" {
		return fmt.Sprintf("%q", hexToString(d.Value))
	}
	return d.Value
}

func hexToString(h string) string {
	out := make([]byte, len(h)/2)
	for i := range out {
		fmt.Sscanf(h[2*i:2*i+2], "%02x", &out[i])
	}
	return string(out)
}
