package main

// C19 (determinism): run-to-run variation as symbolic input.
//
// The sources of variation that exist in Go's semantics are made symbolic ("schedule variables"): the iteration order of
// every map range (a symbolic permutation), the clock, process-local randomness, and the addresses of objects wherever a
// text rendering prints one. Two complete runs of the same history are executed on one path; the harness asserts that
// what they produce is the same (verif.Same: deep equality by CONTENT, pointers followed). Texts produced by the
// formatting functions are not byte vectors but "text terms": a skeleton (format, shape, the places where fmt prints an
// address, each such address named by the identity of the allocation) plus the leaf terms printed; two texts are the same
// iff the skeletons are identical and the leaves equal (decided by the solver).

import (
	"fmt"
	"go/types"
	"sort"
	"strconv"
	"strings"

	"golang.org/x/tools/go/ssa"
)

// textBlob is the abstract content of a formatted text.
type textBlob struct {
	skel   string
	leaves []*Term
}

func (st *State) newText(skel string, leaves []*Term) *Str {
	if st.textLen == nil {
		st.textLen = map[string]*Term{}
	}
	var sb strings.Builder
	sb.WriteString(skel)
	for _, l := range leaves {
		fmt.Fprintf(&sb, "#%d", l.id)
	}
	k := sb.String()
	l, ok := st.textLen[k]
	if !ok {
		l = st.freshVar("text_len", BV(64))
		st.textLen[k] = l
	}
	return &Str{Len: l, Blob: textBlob{skel: skel, leaves: leaves}}
}

type keyB struct {
	st     *State
	sb     strings.Builder
	leaves []*Term
	seen   map[*value]bool
}

func (st *State) newKeyB() *keyB { return &keyB{st: st, seen: map[*value]bool{}} }

func (k *keyB) w(s string) { k.sb.WriteString(s) }

func (k *keyB) term(t *Term) {
	if t == nil {
		k.w("<nilterm>")
		return
	}
	if t.IsConst() {
		k.w("c" + t.C.String())
		return
	}
	k.w("?")
	k.leaves = append(k.leaves, t)
}

func (k *keyB) addr(p any) { k.w(fmt.Sprintf("ADDR(%p)", p)) }

func (k *keyB) str(s *Str) {
	if s == nil {
		k.w("<nilstr>")
		return
	}
	if c, ok := s.Concrete(); ok && s.Blob == nil {
		k.w(strconv.Quote(c))
		return
	}
	switch b := s.Blob.(type) {
	case textBlob:
		k.w("T(" + b.skel + ")")
		k.leaves = append(k.leaves, b.leaves...)
		return
	case decBlob:
		k.w("dec(")
		k.term(b.v)
		k.w(")")
		return
	case *icsBlob:
		k.w(fmt.Sprintf("ics20[%v,%d](", b.unknown, b.wire))
		k.content(b.data)
		k.w(")")
		return
	case icsBlob:
		k.w(fmt.Sprintf("ics20[%v,%d](", b.unknown, b.wire))
		k.content(b.data)
		k.w(")")
		return
	case *memoBlob:
		k.w(fmt.Sprintf("memo[%d,%d](", b.extra, b.tail))
		k.content(b.wrapper)
		k.w(")")
		return
	case memoBlob:
		k.w(fmt.Sprintf("memo[%d,%d](", b.extra, b.tail))
		k.content(b.wrapper)
		k.w(")")
		return
	case nil:
	default:
		k.w(fmt.Sprintf("blob<%T>", b))
		k.term(s.Len)
		return
	}
	k.w(fmt.Sprintf("S%d(", len(s.B)))
	k.term(s.Len)
	for _, b := range s.B {
		k.w(",")
		k.term(b)
	}
	k.w(")")
}

// content renders a value by content: pointers are followed (cycle: back reference), nothing depends on identity.
func (k *keyB) content(v value) {
	switch x := v.(type) {
	case nil:
		k.w("nil")
	case *Term:
		k.term(x)
	case *Str:
		k.str(x)
	case *bigV:
		if x == nil || x.isNil {
			k.w("nilint")
			return
		}
		k.w("i")
		k.term(x.v)
	case zV:
		k.w("z")
		k.term(x.t)
	case structure:
		k.w("{")
		for i, f := range x {
			if i > 0 {
				k.w(",")
			}
			k.content(f)
		}
		k.w("}")
	case array:
		k.w("[")
		for i, f := range x {
			if i > 0 {
				k.w(",")
			}
			k.content(f)
		}
		k.w("]")
	case tuple:
		k.w("(")
		for i, f := range x {
			if i > 0 {
				k.w(",")
			}
			k.content(f)
		}
		k.w(")")
	case []value:
		if x == nil {
			k.w("nilslice")
			return
		}
		k.w(fmt.Sprintf("[%d:", len(x)))
		for i, f := range x {
			if i > 0 {
				k.w(",")
			}
			k.content(f)
		}
		k.w("]")
	case *value:
		if x == nil {
			k.w("nilptr")
			return
		}
		if k.seen[x] {
			k.w("<cycle>")
			return
		}
		k.seen[x] = true
		k.w("&")
		k.content(*x)
		delete(k.seen, x)
	case iface:
		if x.t == nil {
			k.w("<nil>")
			return
		}
		if x.t == errObjType {
			k.errText(x)
			return
		}
		k.w("(" + x.t.String() + ")")
		k.content(x.v)
	case *mapV:
		if x == nil {
			k.w("nilmap")
			return
		}
		// rendered in a canonical order (by the rendering of the keys): the content of a map has no order
		type ent struct {
			ks string
			kl []*Term
			i  int
		}
		var es []ent
		for i := range x.keys {
			kk := k.st.newKeyB()
			kk.content(x.keys[i])
			es = append(es, ent{kk.sb.String(), kk.leaves, i})
		}
		sort.SliceStable(es, func(a, b int) bool { return es[a].ks < es[b].ks })
		k.w("map{")
		for _, e := range es {
			k.w(e.ks + ":")
			k.leaves = append(k.leaves, e.kl...)
			k.content(x.vals[e.i])
			k.w(";")
		}
		k.w("}")
	case *closure:
		if x == nil {
			k.w("nilfunc")
			return
		}
		k.w("func:" + x.Fn.String())
	case *opaque:
		if x == nil {
			k.w("nilopaque")
			return
		}
		k.w("opaque:" + x.tag)
	default:
		k.w(fmt.Sprintf("<%T>", v))
	}
}

// errText renders the text of an error value (err.Error()).
func (k *keyB) errText(e value) {
	i, ok := e.(iface)
	if !ok || i.t == nil {
		k.w("<nil>")
		return
	}
	if i.t == errObjType {
		o := i.v.(*opaque)
		if o.text != nil {
			k.w("E(" + o.text.skel + ")")
			k.leaves = append(k.leaves, o.text.leaves...)
			return
		}
		k.w("E«" + o.tag + "»")
		return
	}
	// a registered sentinel (*cosmossdk.io/errors.Error): its description
	if strings.HasSuffix(i.t.String(), "cosmossdk.io/errors.Error") {
		if p, ok := i.v.(*value); ok && p != nil {
			if s, ok := (*p).(structure); ok && len(s) >= 3 {
				k.w("E(")
				k.content(s[2])
				k.w(")")
				return
			}
		}
	}
	// an error type implemented in Go: its Error method is a function of its content
	k.w("M(" + i.t.String() + ":")
	k.content(i.v)
	k.w(")")
}

func hasMethod(t types.Type, name string) bool {
	if t == nil {
		return false
	}
	ms := types.NewMethodSet(t)
	for i := 0; i < ms.Len(); i++ {
		if ms.At(i).Obj().Name() == name {
			return true
		}
	}
	return false
}

// arg renders one operand the way package fmt would walk it, as far as determinism is concerned: where fmt calls an
// Error / String / Format method the text is a function of the operand's content; where fmt prints the address of an
// object (a pointer below the top level, a pointer to something that is not a struct / array / slice / map, %p, a
// function value, a channel) the rendering names the allocation, which differs from run to run.
func (k *keyB) arg(v value, t types.Type, verb byte, depth int, canIface bool) {
	if verb == 'T' {
		if i, ok := v.(iface); ok && depth == 0 {
			if i.t == nil {
				k.w("T<nil>")
			} else {
				k.w("T" + i.t.String())
			}
			return
		}
		k.w("T" + fmt.Sprint(t))
		return
	}
	if i, ok := v.(iface); ok {
		if i.t == nil {
			k.w("<nil>")
			return
		}
		if i.t == errObjType {
			k.errText(i)
			return
		}
		d := depth
		if depth > 0 {
			d = depth + 1 // printValue(reflect.Interface) descends one level; methods are looked up there (CanInterface)
		}
		k.arg(i.v, i.t, verb, d, canIface)
		return
	}
	if verb == 'p' {
		k.addr(v)
		return
	}
	if t != nil && canIface && verb != 'd' && verb != 'T' {
		if hasMethod(t, "Format") || hasMethod(t, "Error") || hasMethod(t, "String") {
			if p, isPtr := v.(*value); isPtr && p == nil {
				k.w("<nil>")
				return
			}
			k.w("M(" + t.String() + ":")
			k.content(v)
			k.w(")")
			return
		}
	}
	var u types.Type
	if t != nil {
		u = t.Underlying()
	}
	switch x := v.(type) {
	case *Term:
		k.term(x)
	case *Str:
		k.str(x)
	case *bigV:
		// math.Int reached by reflection (its String method cannot be called: unexported field path, or a verb that
		// does not use it): fmt prints the struct { i *big.Int }, i.e. the ADDRESS of the big.Int
		if x == nil || x.isNil {
			k.w("{<nil>}")
			return
		}
		k.st.opaqueN++
		k.w(fmt.Sprintf("{ADDR(bigint#%d)}", k.st.opaqueN))
	case zV:
		k.content(v)
	case *value:
		if x == nil {
			k.w("<nil>")
			return
		}
		var elem types.Type
		if pt, ok := u.(*types.Pointer); ok {
			elem = pt.Elem()
		}
		if depth == 0 && elem != nil {
			switch elem.Underlying().(type) {
			case *types.Struct, *types.Array, *types.Slice, *types.Map:
				if isMathInt(elem) {
					break
				}
				k.w("&")
				k.arg(*x, elem, verb, depth+1, canIface)
				return
			}
		}
		k.addr(x)
	case structure:
		stt, _ := u.(*types.Struct)
		k.w("{")
		for i, f := range x {
			if i > 0 {
				k.w(" ")
			}
			var ft types.Type
			exported := false
			if stt != nil && i < stt.NumFields() {
				ft = stt.Field(i).Type()
				exported = stt.Field(i).Exported()
			}
			k.arg(f, ft, verb, depth+1, canIface && exported)
		}
		k.w("}")
	case array:
		var et types.Type
		if at, ok := u.(*types.Array); ok {
			et = at.Elem()
		}
		k.w("[")
		for i, f := range x {
			if i > 0 {
				k.w(" ")
			}
			k.arg(f, et, verb, depth+1, canIface)
		}
		k.w("]")
	case []value:
		var et types.Type
		if sl, ok := u.(*types.Slice); ok {
			et = sl.Elem()
		}
		k.w(fmt.Sprintf("[%d:", len(x)))
		for i, f := range x {
			if i > 0 {
				k.w(" ")
			}
			k.arg(f, et, verb, depth+1, canIface)
		}
		k.w("]")
	case *mapV:
		// fmt prints maps sorted by key
		var kt, vt types.Type
		if mt, ok := u.(*types.Map); ok {
			kt, vt = mt.Key(), mt.Elem()
		}
		if x == nil {
			k.w("map[]")
			return
		}
		type ent struct {
			ks string
			kl []*Term
			i  int
		}
		var es []ent
		for i := range x.keys {
			kk := k.st.newKeyB()
			kk.arg(x.keys[i], kt, verb, depth+1, canIface)
			es = append(es, ent{kk.sb.String(), kk.leaves, i})
		}
		sort.SliceStable(es, func(a, b int) bool { return es[a].ks < es[b].ks })
		k.w("map[")
		for _, e := range es {
			k.w(e.ks + ":")
			k.leaves = append(k.leaves, e.kl...)
			k.arg(x.vals[e.i], vt, verb, depth+1, canIface)
			k.w(" ")
		}
		k.w("]")
	case *closure:
		if x == nil {
			k.w("<nil>")
			return
		}
		k.addr(x)
	case nil:
		k.w("<nil>")
	default:
		k.content(v)
	}
}

// fmtText is the text term of fmt.Sprintf(format, args...).
func (st *State) fmtText(format *Str, args []value) (skel string, leaves []*Term) {
	f, ok := format.Concrete()
	if !ok {
		panic(pathEnd{kind: "unsupported", msg: "formatting with a symbolic format string"})
	}
	k := st.newKeyB()
	k.w("F(" + strconv.Quote(f) + ";")
	ai := 0
	for i := 0; i < len(f); i++ {
		if f[i] != '%' {
			continue
		}
		i++
		// flags, width, precision
		for i < len(f) && strings.IndexByte("+-# 0123456789.", f[i]) >= 0 {
			i++
		}
		if i >= len(f) {
			break
		}
		if f[i] == '%' {
			continue
		}
		if ai >= len(args) {
			k.w("%!(MISSING);")
			continue
		}
		a := args[ai]
		ai++
		var t types.Type
		if x, ok := a.(iface); ok {
			t = x.t
		}
		k.arg(a, t, f[i], 0, true)
		k.w(";")
	}
	for ; ai < len(args); ai++ {
		k.w("%!(EXTRA ")
		var t types.Type
		if x, ok := args[ai].(iface); ok {
			t = x.t
		}
		k.arg(args[ai], t, 'v', 0, true)
		k.w(");")
	}
	k.w(")")
	return k.sb.String(), k.leaves
}

// newErrText: an error object with a modelled text.
func newErrText(st *State, tag string, skel string, leaves []*Term, chain ...value) value {
	st.opaqueN++
	return iface{t: errObjType, v: &opaque{tag: tag, id: st.opaqueN, info: chain, text: &textBlob{skel: skel, leaves: leaves}}}
}

// errTextOf: (skeleton, leaves) of err.Error().
func (st *State) errTextOf(e value) (string, []*Term) {
	k := st.newKeyB()
	k.errText(e)
	return k.sb.String(), k.leaves
}

func strText(st *State, s value) (string, []*Term) {
	k := st.newKeyB()
	if x, ok := s.(*Str); ok {
		k.str(x)
	} else {
		k.content(s)
	}
	return k.sb.String(), k.leaves
}

// ---- deep equality by content ------------------------------------------------------------------------------------

func (st *State) deepSame(x, y value, seen map[[2]*value]bool) *Term {
	switch a := x.(type) {
	case nil:
		return BoolConst(y == nil)
	case *Term:
		b, ok := y.(*Term)
		if !ok {
			return False
		}
		return Eq(a, b)
	case *Str:
		b, ok := y.(*Str)
		if !ok {
			if ys, isSl := y.([]value); isSl { // []byte views
				return st.deepSame(x, st.conv(types.Typ[types.String], types.NewSlice(types.Typ[types.Byte]), ys), seen)
			}
			return False
		}
		return st.sameStr(a, b)
	case *bigV:
		b, ok := y.(*bigV)
		if !ok {
			return False
		}
		if a.isNil || b.isNil {
			return BoolConst(a.isNil == b.isNil)
		}
		return Eq(a.v, b.v)
	case zV:
		b, ok := y.(zV)
		if !ok {
			return False
		}
		return Eq(a.t, b.t)
	case structure:
		b, ok := y.(structure)
		if !ok || len(a) != len(b) {
			return False
		}
		r := True
		for i := range a {
			r = And(r, st.deepSame(a[i], b[i], seen))
		}
		return r
	case array:
		b, ok := y.(array)
		if !ok || len(a) != len(b) {
			return False
		}
		r := True
		for i := range a {
			r = And(r, st.deepSame(a[i], b[i], seen))
		}
		return r
	case tuple:
		b, ok := y.(tuple)
		if !ok || len(a) != len(b) {
			return False
		}
		r := True
		for i := range a {
			r = And(r, st.deepSame(a[i], b[i], seen))
		}
		return r
	case []value:
		b, ok := y.([]value)
		if !ok {
			if ys, isStr := y.(*Str); isStr {
				return st.deepSame(st.conv(types.Typ[types.String], types.NewSlice(types.Typ[types.Byte]), a), ys, seen)
			}
			return False
		}
		if len(a) != len(b) { // (reflect.DeepEqual tells a nil slice from an empty one; a proto decoder does not — lengths only)
			return False
		}
		r := True
		for i := range a {
			r = And(r, st.deepSame(a[i], b[i], seen))
		}
		return r
	case *value:
		b, ok := y.(*value)
		if !ok {
			return False
		}
		if a == nil || b == nil {
			return BoolConst(a == nil && b == nil)
		}
		if a == b || seen[[2]*value{a, b}] {
			return True
		}
		seen[[2]*value{a, b}] = true
		return st.deepSame(*a, *b, seen)
	case iface:
		b, ok := y.(iface)
		if !ok {
			return False
		}
		if a.t == nil || b.t == nil {
			return BoolConst(a.t == nil && b.t == nil)
		}
		if a.t == errObjType || b.t == errObjType {
			if a.t != b.t {
				return False
			}
			s1, l1 := st.errTextOf(a)
			s2, l2 := st.errTextOf(b)
			return sameText(s1, l1, s2, l2)
		}
		if !types.Identical(a.t, b.t) {
			return False
		}
		return st.deepSame(a.v, b.v, seen)
	case *mapV:
		b, ok := y.(*mapV)
		if !ok {
			return False
		}
		if a == nil || b == nil {
			return BoolConst((a == nil || len(a.keys) == 0) && (b == nil || len(b.keys) == 0))
		}
		if len(a.keys) != len(b.keys) {
			return False
		}
		// as sets of entries: every key of a (by rendering) is a key of b with the same value
		r := True
		for i := range a.keys {
			ka := st.newKeyB()
			ka.content(a.keys[i])
			found := False
			for j := range b.keys {
				kb := st.newKeyB()
				kb.content(b.keys[j])
				found = Or(found, And(sameText(ka.sb.String(), ka.leaves, kb.sb.String(), kb.leaves), st.deepSame(a.vals[i], b.vals[j], seen)))
			}
			r = And(r, found)
		}
		return r
	case *closure:
		b, ok := y.(*closure)
		if !ok {
			return False
		}
		if a == nil || b == nil {
			return BoolConst(a == nil && b == nil)
		}
		return BoolConst(a.Fn == b.Fn)
	case *opaque:
		b, ok := y.(*opaque)
		if !ok {
			return False
		}
		if a == nil || b == nil {
			return BoolConst(a == nil && b == nil)
		}
		return BoolConst(a == b || a.tag == b.tag)
	}
	panic(pathEnd{kind: "unsupported", msg: fmt.Sprintf("verif.Same on %T", x)})
}

func sameText(s1 string, l1 []*Term, s2 string, l2 []*Term) *Term {
	if s1 != s2 || len(l1) != len(l2) {
		return False
	}
	r := True
	for i := range l1 {
		if l1[i].S != l2[i].S {
			return False
		}
		r = And(r, Eq(l1[i], l2[i]))
	}
	return r
}

func (st *State) sameStr(a, b *Str) *Term {
	if a.Blob == nil && b.Blob == nil {
		return StrEq(a, b)
	}
	ka, kb := st.newKeyB(), st.newKeyB()
	ka.str(a)
	kb.str(b)
	return sameText(ka.sb.String(), ka.leaves, kb.sb.String(), kb.leaves)
}

// ---- schedule variables ------------------------------------------------------------------------------------------------

// permutations of 0..n-1: all of them for n <= 4, the rotations and their reversals beyond (stated bound)
func iterOrders(n int) [][]int {
	if n <= 4 {
		var out [][]int
		var rec func(cur []int, used []bool)
		rec = func(cur []int, used []bool) {
			if len(cur) == n {
				out = append(out, append([]int{}, cur...))
				return
			}
			for i := 0; i < n; i++ {
				if !used[i] {
					used[i] = true
					rec(append(cur, i), used)
					used[i] = false
				}
			}
		}
		rec(nil, make([]bool, n))
		return out
	}
	var out [][]int
	for r := 0; r < n; r++ {
		f, b := make([]int, n), make([]int, n)
		for i := 0; i < n; i++ {
			f[i] = (r + i) % n
			b[i] = (r - i + 2*n) % n
		}
		out = append(out, f, b)
	}
	return out
}

// mapOrder picks the iteration order of a map range: insertion order while the schedule is fixed, any order (a fork per
// order) once the harness has released it.
func (st *State) mapOrder(n int) []int {
	id := make([]int, n)
	for i := range id {
		id[i] = i
	}
	if !st.schedule || n < 2 {
		return id
	}
	orders := iterOrders(n)
	// bound on the product: the first two released ranges of a path take every order, the next four the insertion order
	// or its reverse, later ones the insertion order
	switch {
	case st.mapOrders >= 6:
		return id
	case st.mapOrders >= 2:
		rev := make([]int, n)
		for i := range rev {
			rev[i] = n - 1 - i
		}
		orders = [][]int{id, rev}
	}
	x := st.freshVar("map-iteration-order", BV(64))
	st.assume(BVCmp("bvult", x, BVConstI(int64(len(orders)), 64)))
	for c := range orders {
		if st.decide(Eq(x, BVConstI(int64(c), 64))) {
			st.mapOrders++
			return orders[c]
		}
	}
	panic(pathEnd{kind: "dead"})
}

func addDeterminism(m map[string]intrinsic) {
	V := orb + "/zzverif/verif."
	m[V+"Schedule"] = func(st *State, fr *frame, a []value, cc *ssa.CallCommon) value {
		st.schedule = a[0].(*Term).IsTrue()
		return nil
	}
	m[V+"Retries"] = func(st *State, fr *frame, a []value, cc *ssa.CallCommon) value { return BVConstI(1, 64) }
	m[V+"Mute"] = func(st *State, fr *frame, a []value, cc *ssa.CallCommon) value { return nil }
	m[V+"Same"] = func(st *State, fr *frame, a []value, cc *ssa.CallCommon) value {
		return st.deepSame(a[0], a[1], map[[2]*value]bool{})
	}
	// the clock: every reading is an arbitrary instant
	m["time.Now"] = func(st *State, fr *frame, a []value, cc *ssa.CallCommon) value {
		st.clockReads++
		return structure{st.freshVar("clock-wall", BV(64)), st.freshVar("clock-ext", BV(64)), (*value)(nil)}
	}
	m["time.Since"] = func(st *State, fr *frame, a []value, cc *ssa.CallCommon) value {
		st.clockReads++
		return st.freshVar("clock-elapsed", BV(64))
	}
	m["time.Until"] = m["time.Since"]
	// process-local randomness: every reading is an arbitrary value
	rnd := func(w int) intrinsic {
		return func(st *State, fr *frame, a []value, cc *ssa.CallCommon) value {
			st.randReads++
			return st.freshVar("random", BV(w))
		}
	}
	rndBelow := func(w int) intrinsic {
		return func(st *State, fr *frame, a []value, cc *ssa.CallCommon) value {
			st.randReads++
			x := st.freshVar("random", BV(w))
			n := a[len(a)-1].(*Term)
			st.assume(BVCmp("bvsge", x, BVConstI(0, w)))
			st.assume(BVCmp("bvslt", x, n))
			return x
		}
	}
	for _, p := range []string{"math/rand.", "math/rand/v2."} {
		m[p+"Int"] = func(st *State, fr *frame, a []value, cc *ssa.CallCommon) value {
			st.randReads++
			x := st.freshVar("random", BV(64))
			st.assume(BVCmp("bvsge", x, BVConstI(0, 64)))
			return x
		}
		m[p+"Int63"], m[p+"Int64"] = m[p+"Int"], m[p+"Int"]
		m[p+"Int31"], m[p+"Int32"] = func(st *State, fr *frame, a []value, cc *ssa.CallCommon) value {
			st.randReads++
			x := st.freshVar("random", BV(32))
			st.assume(BVCmp("bvsge", x, BVConstI(0, 32)))
			return x
		}, nil
		m[p+"Int32"] = m[p+"Int31"]
		m[p+"Uint32"], m[p+"Uint64"] = rnd(32), rnd(64)
		m[p+"Intn"], m[p+"Int63n"], m[p+"Int64N"], m[p+"IntN"] = rndBelow(64), rndBelow(64), rndBelow(64), rndBelow(64)
		m[p+"Int31n"], m[p+"Int32N"] = rndBelow(32), rndBelow(32)
	}
	m["crypto/rand.Read"] = func(st *State, fr *frame, a []value, cc *ssa.CallCommon) value {
		st.randReads++
		b, _ := a[0].([]value)
		for i := range b {
			b[i] = st.freshVar("random-byte", BV(8))
		}
		return tuple{BVConstI(int64(len(b)), 64), iface{}}
	}
}
