package main

import (
	"fmt"
	"go/constant"
	"go/types"
	"math/big"

	"golang.org/x/tools/go/ssa"
)

type value = any
type tuple []value
type array []value
type structure []value
type iface struct {
	t types.Type
	v value
}
type closure struct {
	Fn  *ssa.Function
	Env []value
}
type mapV struct {
	keys, vals []value
	orig       []value // collections summaries: the key as passed by the caller (Pair/Quad with pointer fields)
}
// bigV models cosmossdk.io/math.Int: nil flag (concrete in this prototype) + mathematical integer.
type bigV struct {
	isNil bool
	v     *Term
}

func isMathInt(t types.Type) bool {
	n, ok := t.(*types.Named)
	return ok && n.Obj().Pkg() != nil && n.Obj().Pkg().Path() == "cosmossdk.io/math" && n.Obj().Name() == "Int"
}

// zV is a verif.Z: an unbounded specification integer.
type zV struct{ t *Term }

// goFunc is a function value implemented by the engine (e.g. the write function returned by CacheContext).
type goFunc func(st *State, args []value) value

type opaque struct {
	tag  string
	id   int
	info any
	text *textBlob // errors: the modelled text of Error() (nil: unknown, named by the tag)
}

// Str is a bounded byte vector. Invariant for symbolic strings: bytes at index >= Len are 0.
type Str struct {
	B    []*Term
	Len  *Term // BV64
	Blob any   // abstract content (codec blobs, decimal of a big integer); bytes are then unknown
}

type icsBlob struct {
	data    value // encoded FungibleTokenPacketData (structure)
	unknown bool  // carries an unknown field: refused by the strict proto JSON codec, accepted by encoding/json
	wire    int   // wire form: 0 canonical (empty fields omitted), 1 every field present, 2 empty fields omitted + escapes + white space; a decoder leaves absent fields of its target untouched
}
// fmtBlob: text produced by a formatting verb that is not modelled (content unknown).
type fmtBlob struct{}

type memoBlob struct {
	wrapper value // *value -> PayloadWrapper structure
	extra   int   // extra root keys besides "orbiter"
	tail    int   // bytes after the document: 0 none, 1..3 not white space (the memo is not a JSON document), 4 white space
}
type decBlob struct{ v *Term } // decimal rendering of an Int term

func StrConst(s string) *Str {
	b := make([]*Term, len(s))
	for i := 0; i < len(s); i++ {
		b[i] = BVConstI(int64(s[i]), 8)
	}
	return &Str{B: b, Len: BVConstI(int64(len(s)), 64)}
}

func (s *Str) Concrete() (string, bool) {
	if !s.Len.IsConst() {
		return "", false
	}
	n := int(s.Len.C.Int64())
	out := make([]byte, n)
	for i := 0; i < n; i++ {
		if !s.B[i].IsConst() {
			return "", false
		}
		out[i] = byte(s.B[i].C.Int64())
	}
	return string(out), true
}

func (s *Str) at(i int) *Term {
	if s.Blob != nil {
		// the bytes of an encoded document exist only natively: code that looks at them is decided by the concolic run
		panic(pathEnd{kind: "unsupported", msg: "raw byte access into an encoded document"})
	}
	if i < len(s.B) {
		return s.B[i]
	}
	return BVConstI(0, 8)
}

func StrEq(a, b *Str) *Term {
	r := Eq(a.Len, b.Len)
	n := len(a.B)
	if len(b.B) > n {
		n = len(b.B)
	}
	// if one side has constant length L, only first L bytes matter (given Len equality)
	if a.Len.IsConst() && int(a.Len.C.Int64()) < n {
		n = int(a.Len.C.Int64())
	}
	if b.Len.IsConst() && int(b.Len.C.Int64()) < n {
		n = int(b.Len.C.Int64())
	}
	for i := 0; i < n && !r.IsFalse(); i++ {
		r = And(r, Eq(a.at(i), b.at(i)))
	}
	return r
}

func intWidth(t types.Type) (w int, signed bool, ok bool) {
	b, isB := t.Underlying().(*types.Basic)
	if !isB {
		return 0, false, false
	}
	switch b.Kind() {
	case types.Int8:
		return 8, true, true
	case types.Int16:
		return 16, true, true
	case types.Int32:
		return 32, true, true
	case types.Int64, types.Int:
		return 64, true, true
	case types.Uint8:
		return 8, false, true
	case types.Uint16:
		return 16, false, true
	case types.Uint32:
		return 32, false, true
	case types.Uint64, types.Uint, types.Uintptr:
		return 64, false, true
	case types.UntypedInt, types.UntypedRune:
		return 64, true, true
	}
	return 0, false, false
}

func zero(t types.Type) value {
	switch t := t.(type) {
	case *types.Basic:
		if t.Kind() == types.UntypedNil {
			return nil
		}
		if t.Info()&types.IsBoolean != 0 {
			return False
		}
		if t.Info()&types.IsString != 0 {
			return StrConst("")
		}
		if w, _, ok := intWidth(t); ok {
			return BVConstI(0, w)
		}
		if t.Kind() == types.UnsafePointer {
			return (*value)(nil)
		}
		panic(unsupported{"zero of " + t.String()})
	case *types.Pointer:
		return (*value)(nil)
	case *types.Array:
		a := make(array, t.Len())
		for i := range a {
			a[i] = zero(t.Elem())
		}
		return a
	case *types.Named:
		if isMathInt(t) {
			return &bigV{isNil: true}
		}
		return zero(t.Underlying())
	case *types.Alias:
		return zero(types.Unalias(t))
	case *types.Interface:
		return iface{}
	case *types.Slice:
		return []value(nil)
	case *types.Struct:
		s := make(structure, t.NumFields())
		for i := range s {
			s[i] = zero(t.Field(i).Type())
		}
		return s
	case *types.Tuple:
		if t.Len() == 1 {
			return zero(t.At(0).Type())
		}
		s := make(tuple, t.Len())
		for i := range s {
			s[i] = zero(t.At(i).Type())
		}
		return s
	case *types.Map:
		return (*mapV)(nil)
	case *types.Signature:
		return (*closure)(nil)
	case *types.Chan:
		return nil
	}
	panic(unsupported{fmt.Sprintf("zero of %T %v", t, t)})
}

func copyVal(v value) value {
	switch v := v.(type) {
	case array:
		a := make(array, len(v))
		for i := range v {
			a[i] = copyVal(v[i])
		}
		return a
	case structure:
		a := make(structure, len(v))
		for i := range v {
			a[i] = copyVal(v[i])
		}
		return a
	}
	return v
}

func constValue(c *ssa.Const) value {
	if c.Value == nil {
		return zero(c.Type())
	}
	t := c.Type().Underlying()
	if b, ok := t.(*types.Basic); ok {
		switch {
		case b.Info()&types.IsBoolean != 0:
			return BoolConst(constant.BoolVal(c.Value))
		case b.Info()&types.IsString != 0:
			if c.Value.Kind() == constant.String {
				return StrConst(constant.StringVal(c.Value))
			}
		case b.Info()&types.IsInteger != 0:
			w, _, _ := intWidth(b)
			bi, _ := new(big.Int).SetString(c.Value.ExactString(), 10)
			if bi == nil {
				iv, _ := constant.Int64Val(constant.ToInt(c.Value))
				bi = big.NewInt(iv)
			}
			return BVConst(bi, w)
		}
	}
	panic(unsupported{"const " + c.String()})
}


// isolate makes a private copy of a package-level value for one path: maps, slices, arrays, structs, byte strings and
// the objects behind pointers are copied (aliasing inside the value is kept through memo); terms, integers, closures and
// opaque library objects are immutable or identity-only and stay shared. Without it a package-level map or slice that
// the code under test WRITES (a cache) would leak from one explored path into the next and between workers.
func isolate(v value, memo map[*value]*value) value {
	switch x := v.(type) {
	case *mapV:
		if x == nil {
			return x
		}
		n := &mapV{}
		for _, k := range x.keys {
			n.keys = append(n.keys, isolate(k, memo))
		}
		for _, e := range x.vals {
			n.vals = append(n.vals, isolate(e, memo))
		}
		n.orig = append(n.orig, x.orig...)
		return n
	case []value:
		if x == nil {
			return x
		}
		n := make([]value, len(x), cap(x))
		for i := range x {
			n[i] = isolate(x[i], memo)
		}
		return n
	case array:
		n := make(array, len(x))
		for i := range x {
			n[i] = isolate(x[i], memo)
		}
		return n
	case structure:
		n := make(structure, len(x))
		for i := range x {
			n[i] = isolate(x[i], memo)
		}
		return n
	case iface:
		return iface{t: x.t, v: isolate(x.v, memo)}
	case *Str:
		if x == nil {
			return x
		}
		c := *x
		return &c
	case *value:
		if x == nil {
			return x
		}
		if n, ok := memo[x]; ok {
			return n
		}
		n := new(value)
		memo[x] = n
		*n = isolate(*x, memo)
		return n
	}
	return v
}
