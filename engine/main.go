// gosx — bounded symbolic execution of the real orbiter code (go/ssa) decided by SMT solvers.
//
//	gosx check <Cxx> <quick|thorough>     run every harness of a property, write evidence, print verdicts
//	gosx run -h <Harness> [flags]          development: one harness, verbose
//	gosx replay <Cxx> <witness.json>       rebuild the native harness from /repo and replay one witness
//	gosx list                              properties and harnesses
package main

import (
	"flag"
	"fmt"
	"os"
	"path/filepath"
	"runtime/debug"
	"runtime/pprof"
	"strconv"
	"strings"
	"time"
)

const orb = "github.com/noble-assets/orbiter/v2"

var (
	verifDir = "/verif"
	repoDir  = "/repo"
)

func init() {
	if d := os.Getenv("GOSX_VERIF_DIR"); d != "" {
		verifDir = d
	} else if exe, err := os.Executable(); err == nil {
		// bin/gosx lives in <verif>/bin
		d := filepath.Dir(filepath.Dir(exe))
		if _, err := os.Stat(filepath.Join(d, "harness", "verif", "verif.go")); err == nil {
			verifDir = d
		}
	}
	if d := os.Getenv("GOSX_REPO_DIR"); d != "" {
		repoDir = d
	}
}

func usage() {
	fmt.Fprintln(os.Stderr, "usage: gosx check <Cxx> <quick|thorough> | gosx run -h <Harness> [flags] | gosx replay <Cxx> <file> | gosx list")
	os.Exit(2)
}

func seedFromEnv() int64 {
	if s := os.Getenv("VERIF_SEED"); s != "" {
		if v, err := strconv.ParseInt(s, 10, 64); err == nil {
			return v
		}
	}
	return 1
}

func main() {
	// the loaded program (~3 GB, static) dominates the live heap: collect less often
	debug.SetGCPercent(200)
	if len(os.Args) < 2 {
		usage()
	}
	switch os.Args[1] {
	case "list":
		for _, p := range properties() {
			fmt.Printf("%s\n", p.ID)
			for _, h := range p.Harnesses {
				fmt.Printf("   %-34s quick=%v thorough=%v\n", h.Name, h.Quick, h.Thorough)
			}
		}
	case "check":
		if len(os.Args) < 4 {
			usage()
		}
		tier := os.Args[3]
		if t := os.Getenv("VERIF_TIER"); t != "" && len(os.Args) < 4 {
			tier = t
		}
		if tier != "quick" && tier != "thorough" {
			usage()
		}
		os.Exit(runCheck(os.Args[2], tier, seedFromEnv()))
	case "replay":
		if len(os.Args) < 4 {
			usage()
		}
		os.Exit(runReplay(os.Args[2], os.Args[3]))
	case "run":
		fs := flag.NewFlagSet("run", flag.ExitOnError)
		harness := fs.String("h", "", "harness function")
		tier := fs.String("tier", "quick", "quick|thorough")
		tmo := fs.Int("timeout", 0, "seconds (0: the registered cap)")
		workers := fs.Int("workers", 16, "parallel workers")
		profile := fs.String("profile", "bit", "bit|arith")
		logSMT := fs.String("smtlog", "", "write worker 0's SMT-LIB stream here")
		mutate := fs.String("mutate", "", "comma-separated /repo/file=replacement overlay entries")
		noNative := fs.Bool("nonative", false, "skip native confirmation / trace validation")
		verbose := fs.Bool("v", false, "print every violation")
		cpuprof := fs.String("cpuprofile", "", "write a CPU profile")
		fs.Parse(os.Args[2:])
		if *harness == "" {
			usage()
		}
		spec := HarnessSpec{Name: *harness, Profile: *profile, TimeoutQuick: *tmo, TimeoutThorough: *tmo}
		if hs := findHarness(*harness); hs != nil {
			spec = *hs
			if *tmo > 0 {
				os.Setenv("GOSX_TIMEOUT", strconv.Itoa(*tmo))
			}
			if fs.Lookup("profile").Value.String() != "bit" {
				spec.Profile = *profile
			}
		}
		t0 := time.Now()
		ld, err := loadProgram(parseMutate(*mutate))
		if err != nil {
			fmt.Println("LOAD FAILED:", err)
			os.Exit(2)
		}
		fmt.Printf("loaded+built in %v\n", time.Since(t0).Round(time.Millisecond))
		var nat *Native
		if !*noNative {
			nat, err = buildNative(parseMutate(*mutate))
			if err != nil {
				fmt.Println("NATIVE BUILD FAILED:", err)
				os.Exit(2)
			}
			defer nat.Close()
		}
		if *cpuprof != "" {
			f, _ := os.Create(*cpuprof)
			pprof.StartCPUProfile(f)
		}
		res := explore(ld, spec, *tier, seedFromEnv(), *workers, *logSMT, nil)
		if *cpuprof != "" {
			pprof.StopCPUProfile()
		}
		res.print(os.Stdout, *verbose)
		if nat != nil {
			confirmAndValidate(nat, res, *tier, seedFromEnv())
			res.printNative(os.Stdout)
		}
	default:
		usage()
	}
}

func parseMutate(s string) map[string]string {
	out := map[string]string{}
	if s == "" {
		return out
	}
	for _, kv := range strings.Split(s, ",") {
		p := strings.SplitN(kv, "=", 2)
		if len(p) == 2 {
			out[p[0]] = p[1]
		}
	}
	return out
}
