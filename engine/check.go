package main

import (
	"go/types"
	"encoding/json"
	"fmt"
	"os"
	"path/filepath"
	"sort"
	"strings"
	"time"
)

type Property struct {
	ID          string
	Harnesses   []HarnessSpec
	Assumptions []string
}

func findHarness(name string) *HarnessSpec {
	for _, p := range properties() {
		for i := range p.Harnesses {
			if p.Harnesses[i].Name == name {
				return &p.Harnesses[i]
			}
		}
	}
	return nil
}

func findProperty(id string) *Property {
	for _, p := range properties() {
		if p.ID == id {
			return &p
		}
	}
	return nil
}

// ---- known findings -------------------------------------------------------------------------------

type Finding struct {
	Property string `json:"property"`
	Harness  string `json:"harness"`
	Label    string `json:"label"` // assertion label, or "panic: <what> in <function>"
	What     string `json:"what"`
	Commit   string `json:"commit,omitempty"`
	// Input pins the finding to the inputs that fail: every listed draw (label -> rendered value) must have that value in
	// the counterexample; a counterexample of the same label with other inputs is a NEW violation.
	Input map[string]string `json:"input,omitempty"`
}

type KnownFindings struct {
	Open  []Finding `json:"open"`
	Fixed []Finding `json:"fixed"`
}

func loadKnown() KnownFindings {
	var k KnownFindings
	b, err := os.ReadFile(filepath.Join(verifDir, "known_findings.json"))
	if err == nil {
		json.Unmarshal(b, &k)
	}
	return k
}

func (k KnownFindings) match(prop, harness, label string, witness []WDraw) *Finding {
	for i := range k.Open {
		f := &k.Open[i]
		if f.Property != prop || f.Harness != harness || f.Label != label {
			continue
		}
		ok := true
		for dl, dv := range f.Input {
			found := false
			for _, w := range witness {
				if w.Label == dl && drawString(w) == dv {
					found = true
				}
			}
			ok = ok && found
		}
		if ok {
			return f
		}
	}
	return nil
}

// ---- check ----------------------------------------------------------------------------------------

func runCheck(id, tier string, seed int64) int {
	t0 := time.Now()
	prop := findProperty(id)
	if prop == nil {
		fmt.Printf("unknown property %s\n", id)
		return 2
	}
	fmt.Printf("== %s tier=%s seed=%d: loading %s (current working tree) + harness overlay\n", id, tier, seed, repoDir)
	type natRes struct {
		n   *Native
		err error
	}
	nch := make(chan natRes, 1)
	go func() {
		n, err := buildNative(nil)
		nch <- natRes{n, err}
	}()
	ld, err := loadProgram(nil)
	if err != nil {
		fmt.Printf("ENGINE-ERROR property=%s load failed: %v\n", id, err)
		if nr := <-nch; nr.n != nil {
			nr.n.Close()
		}
		writeEvidence(prop, tier, seed, nil, nil, time.Since(t0), 0, "load failed: "+err.Error())
		return 2
	}
	loadT := time.Since(t0)
	nr := <-nch
	if nr.err != nil {
		fmt.Printf("ENGINE-ERROR property=%s native harness build failed: %v\n", id, nr.err)
		writeEvidence(prop, tier, seed, nil, nil, time.Since(t0), 0, "native build failed")
		return 2
	}
	nat := nr.n
	defer nat.Close()
	setOracleConstants(nat.Consts)
	fmt.Printf("   loaded+built SSA in %v, native harness in %v\n", loadT.Round(time.Millisecond), nat.BuildTime.Round(time.Millisecond))

	known := loadKnown()
	knownPrinted := map[string]bool{}
	var results []*HarnessResult
	exit := 0
	violations := 0
	os.MkdirAll(filepath.Join(verifDir, "replays", id), 0o755)
	for _, spec := range prop.Harnesses {
		if spec.ThoroughOnly && tier != "thorough" {
			continue
		}
		if exit == 1 && os.Getenv("GOSX_ALL_HARNESSES") == "" {
			fmt.Printf("   %-34s not run (a counterexample of this property is already confirmed; GOSX_ALL_HARNESSES=1 runs everything)\n", spec.Name)
			continue
		}
		smtLog := ""
		if tier == "thorough" {
			smtLog = filepath.Join(nat.dir, "stream-"+spec.Name+".smt2")
		}
		res := explore(ld, spec, tier, seed, 16, smtLog, func(v Violation) bool {
			if known.match(id, spec.Name, v.Label, v.Witness) != nil {
				return false // a listed finding does not end the search for others
			}
			got := nat.runBatch([]batchItem{{ID: 0, Harness: spec.Name, Tier: tier, Bounds: spec.bounds(tier), Witness: v.Witness}})
			_, failed, panicked := normTrace(got[0])
			if v.IsPanic {
				return panicked != "" && !strings.Contains(panicked, "fatal: native process died") && !strings.Contains(panicked, "DIVERGED")
			}
			for _, f := range failed {
				if f == v.Label {
					return true
				}
			}
			return false
		})
		confirmAndValidate(nat, res, tier, seed)
		if smtLog != "" {
			// diff of two solvers on this run's own encoding: worker 0's stream (z3 4.8.12, or cvc5 for the arithmetic
			// profile) is replayed on z3 5.1.0
			res.CrossCompared, res.CrossDisagree, res.CrossNote = crossCheck(smtLog, "z3-new", []string{"-in"}, 3*time.Minute)
			os.Remove(smtLog)
		}
		results = append(results, res)
		status := "holds"
		inconclusive := []string{}
		if res.EngineErr != "" {
			inconclusive = append(inconclusive, "engine error: "+res.EngineErr)
		}
		if res.TimedOut {
			inconclusive = append(inconclusive, fmt.Sprintf("wall-clock cap reached with %d work items left", res.Remaining))
		}
		if n := res.Outcomes["unknown"]; n > 0 {
			inconclusive = append(inconclusive, fmt.Sprintf("%d assertion queries unknown", n))
		}
		if n := res.Outcomes["unwind"]; n > 0 {
			inconclusive = append(inconclusive, fmt.Sprintf("%d unwinding failures", n))
		}
		for _, c := range spec.Covers {
			if res.Covers[c] == 0 {
				inconclusive = append(inconclusive, "cover label not reached: "+c)
			}
		}
		if spec.RPCCoverage {
			// every Msg RPC found in the type information of the current source must have been driven by the harness
			rpcs := msgRPCs(ld)
			fmt.Printf("   Msg RPCs enumerated from the current source: %v\n", rpcs)
			if len(rpcs) == 0 {
				inconclusive = append(inconclusive, "no MsgServer interface found in the source")
			}
			for _, rpc := range rpcs {
				if res.Covers["rpc:"+rpc] == 0 {
					inconclusive = append(inconclusive, "Msg RPC without a harness case (add it to "+spec.Name+"): "+rpc)
				}
			}
		}
		if len(res.CrossDisagree) > 0 {
			inconclusive = append(inconclusive, fmt.Sprintf("%d solver disagreements on the logged stream (first: %s)", len(res.CrossDisagree), res.CrossDisagree[0]))
		}
		if len(res.Unconfirmed) > 0 {
			inconclusive = append(inconclusive, fmt.Sprintf("%d counterexample(s) did not reproduce natively (first: %s)", len(res.Unconfirmed), res.Unconfirmed[0].Label))
		}
		if len(res.TraceMismatches) > 0 {
			inconclusive = append(inconclusive, fmt.Sprintf("%d trace mismatches between engine and native run", len(res.TraceMismatches)))
		}
		for k, c := range res.Confirmed {
			if f := known.match(id, spec.Name, c.V.Label, c.V.Witness); f != nil {
				if !knownPrinted[f.What] {
					knownPrinted[f.What] = true
					fmt.Printf("KNOWN-FINDING: property=%s %s [%s / %s]\n", id, f.What, spec.Name, c.V.Label)
				}
				continue
			}
			violations++
			path := filepath.Join(verifDir, "replays", id, fmt.Sprintf("%s-%d.json", spec.Name, k))
			wb, _ := json.MarshalIndent(map[string]any{"property": id, "harness": spec.Name, "tier": tier, "bounds": res.Bounds, "label": c.V.Label, "detail": c.V.Detail, "witness": c.V.Witness, "native": c.Native}, "", " ")
			os.WriteFile(path, wb, 0o644)
			fmt.Printf("VIOLATION property=%s replay=%s\n", id, path)
			fmt.Printf("   harness=%s label=%q input: %s\n", spec.Name, c.V.Label, witnessString(c.V.Witness))
			status = "VIOLATED"
			exit = 1
		}
		if len(inconclusive) > 0 {
			if status == "holds" {
				status = "INCONCLUSIVE"
			}
			if exit == 0 {
				exit = 2
			}
		}
		fmt.Printf("   %-34s %-12s paths=%d (ok=%d dead=%d unsupported=%d) queries=%d (unknown=%d) validated=%d wall=%v\n", spec.Name, status, res.Paths, res.Outcomes["ok"], res.Outcomes["dead"], res.Outcomes["unsupported"], res.Queries, res.Unknown, res.TracesValidated, res.Wall.Round(time.Millisecond))
		for _, s := range inconclusive {
			fmt.Printf("      inconclusive: %s\n", s)
		}
		if len(res.TraceMismatches) > 0 {
			fmt.Printf("      first mismatch: %s\n", res.TraceMismatches[0])
		}
		if n := res.Outcomes["unsupported"]; n > 0 {
			var ks []string
			for k := range res.Msgs {
				if strings.HasPrefix(k, "unsupported") {
					ks = append(ks, k)
				}
			}
			sort.Strings(ks)
			for i, k := range ks {
				if i >= 3 {
					break
				}
				fmt.Printf("      reduced coverage: %d x %s\n", res.Msgs[k], k)
			}
		}
	}
	note := ""
	if exit == 2 {
		note = "inconclusive (engine error, cap, unknown, vacuity or unreproduced counterexample): not a verdict"
		fmt.Printf("INCONCLUSIVE property=%s (no verdict; see lines above)\n", id)
	}
	writeEvidence(prop, tier, seed, results, nat, time.Since(t0), violations, note)
	if exit == 0 {
		fmt.Printf("OK property=%s tier=%s wall=%v\n", id, tier, time.Since(t0).Round(time.Millisecond))
	}
	return exit
}

func runReplay(id, file string) int {
	b, err := os.ReadFile(file)
	if err != nil {
		fmt.Println(err)
		return 2
	}
	var w struct {
		Harness string         `json:"harness"`
		Tier    string         `json:"tier"`
		Bounds  map[string]int `json:"bounds"`
		Label   string         `json:"label"`
		Witness []WDraw        `json:"witness"`
	}
	if err := json.Unmarshal(b, &w); err != nil {
		fmt.Println(err)
		return 2
	}
	nat, err := buildNative(nil)
	if err != nil {
		fmt.Println("native build failed:", err)
		return 2
	}
	defer nat.Close()
	got := nat.runBatch([]batchItem{{ID: 0, Harness: w.Harness, Tier: w.Tier, Bounds: w.Bounds, Witness: w.Witness}})
	for _, l := range got[0] {
		fmt.Println("TRACE", l)
	}
	_, failed, panicked := normTrace(got[0])
	if len(failed) > 0 || panicked != "" {
		fmt.Printf("VIOLATION property=%s replay=%s\n", id, file)
		return 1
	}
	fmt.Println("replay: no assertion failed")
	return 0
}

// ---- evidence -------------------------------------------------------------------------------------

func writeEvidence(prop *Property, tier string, seed int64, results []*HarnessResult, nat *Native, wall time.Duration, violations int, note string) {
	states, transitions, validated := 0, 0, 0
	queries := map[string]int{"sat": 0, "unsat": 0, "unknown": 0, "total": 0, "fallbacks": 0}
	var solverTime time.Duration
	funcs := map[string]bool{}
	var samples []any
	var hs []any
	exhaustive := len(results) > 0
	unsupported := 0
	var unconfirmed []string
	assumptions := append([]string{}, prop.Assumptions...)
	for _, r := range results {
		states += r.Outcomes["ok"] + r.Outcomes["panic"]
		transitions += r.Decisions
		validated += r.TracesValidated
		queries["sat"] += r.Sat
		queries["unsat"] += r.Unsat
		queries["unknown"] += r.Unknown
		queries["total"] += r.Queries
		queries["fallbacks"] += r.Fallbacks
		solverTime += r.SolverTime
		unsupported += r.Outcomes["unsupported"]
		for f := range r.Funcs {
			if !strings.Contains(f, "/zzverif/") {
				funcs[f] = true
			}
		}
		if r.TimedOut || r.EngineErr != "" || r.Outcomes["unknown"] > 0 || r.Outcomes["unwind"] > 0 || r.Outcomes["unsupported"] > 0 {
			exhaustive = false
		}
		for i, p := range r.Passes {
			if i >= 3 {
				break
			}
			samples = append(samples, map[string]any{"harness": r.Spec.Name, "outcome": "path completed, all assertions proved on it", "input_of_this_path": witnessMap(p.Witness), "trace": p.Trace})
		}
		for i, c := range r.Confirmed {
			if i >= 3 {
				break
			}
			samples = append(samples, map[string]any{"harness": r.Spec.Name, "outcome": "counterexample, confirmed natively", "label": c.V.Label, "input": witnessMap(c.V.Witness)})
		}
		for _, u := range r.Unconfirmed {
			unconfirmed = append(unconfirmed, r.Spec.Name+": "+u.Label)
		}
		var msgs []string
		for k, n := range r.Msgs {
			msgs = append(msgs, fmt.Sprintf("%d x %s", n, k))
		}
		sort.Strings(msgs)
		if len(msgs) > 12 {
			msgs = msgs[:12]
		}
		hs = append(hs, map[string]any{
			"name": r.Spec.Name, "bounds": r.Bounds, "solver_profile": r.Spec.Profile, "paths": r.Paths, "outcomes": r.Outcomes,
			"decisions": r.Decisions, "ssa_steps": r.Steps, "queries": r.Queries, "unknown": r.Unknown, "solver_time_s": r.SolverTime.Seconds(),
			"max_query_s": r.MaxQuery.Seconds(), "explore_wall_s": r.Wall.Seconds(), "cover_labels": r.Covers, "timed_out": r.TimedOut, "cross_check_third_solver": map[string]any{"solver": "z3 5.1.0 (z3-new)", "answers_compared": r.CrossCompared, "disagreements": r.CrossDisagree, "note": r.CrossNote}, "watchdog_kills": r.Watchdog, "stopped_at_first_confirmed_counterexample": r.StoppedEarly,
			"symbolic_counterexamples": len(r.Violations), "confirmed_natively": len(r.Confirmed), "unconfirmed": len(r.Unconfirmed),
			"traces_validated_against_impl": r.TracesValidated, "trace_mismatches": len(r.TraceMismatches), "non_ok_path_messages": msgs, "note": r.Spec.Note,
		})
		assumptions = append(assumptions, r.Spec.Assumptions...)
	}
	var fl []string
	for f := range funcs {
		fl = append(fl, f)
	}
	sort.Strings(fl)
	if len(samples) == 0 {
		samples = append(samples, map[string]any{"note": "no path completed: " + note})
	}
	if states == 0 {
		states = 0
	}
	cov := map[string]any{
		"states": states, "transitions": transitions, "traces_validated_against_impl": validated, "samples": samples,
		"exhaustive": exhaustive, "harnesses": hs, "functions_encoded": fl, "functions_encoded_count": len(fl),
		"queries": queries, "solver_time_s": solverTime.Seconds(),
		"solvers": []string{"z3 4.8.12 (-in, incremental)", "cvc5 1.0 (--incremental --solve-bv-as-int=sum)"},
		"unsupported_paths": unsupported, "unconfirmed": unconfirmed,
		"explanation": "states = completed symbolic paths of the real SSA code (each proved or refuted by solver verdict over all inputs of that path); transitions = symbolic branch decisions; bounds per harness are the loop/length/list bounds inside which the verdict holds, anything beyond them is outside the claim",
	}
	if note != "" {
		cov["note"] = note
	}
	ev := map[string]any{
		"property_id": prop.ID, "tier": tier, "seed": seed, "level": "model_checking", "coverage": cov,
		"assumptions": dedupe(assumptions), "wall_s": wall.Seconds(), "violations": violations,
	}
	b, _ := json.MarshalIndent(ev, "", " ")
	dir := filepath.Join(verifDir, "evidence")
	if d := os.Getenv("GOSX_EVIDENCE_DIR"); d != "" {
		dir = d // runs against a scratch copy of the repository (seeded changes) must not touch the committed evidence
	}
	os.MkdirAll(dir, 0o755)
	os.WriteFile(filepath.Join(dir, prop.ID+".json"), b, 0o644)
}

func witnessMap(ws []WDraw) []string {
	var out []string
	for i, d := range ws {
		if i >= 40 {
			out = append(out, "...")
			break
		}
		v := d.Value
		if d.Kind == "string" {
			v = fmt.Sprintf("%q", hexToString(v))
		}
		out = append(out, d.Label+"="+v)
	}
	return out
}

func dedupe(in []string) []string {
	seen := map[string]bool{}
	out := []string{}
	for _, s := range in {
		if !seen[s] {
			seen[s] = true
			out = append(out, s)
		}
	}
	return out
}

// msgRPCs enumerates "<component>.<Method>" for every method of every interface named MsgServer declared in an
// orbiter package (from the type information of the current source, so new RPCs are seen).
func msgRPCs(ld *Loaded) []string {
	var out []string
	for _, p := range ld.pkgs {
		if p == nil || !isOrbPkg(p.Pkg.Path()) || strings.Contains(p.Pkg.Path(), "/zzverif/") {
			continue
		}
		obj := p.Pkg.Scope().Lookup("MsgServer")
		if obj == nil {
			continue
		}
		it, ok := obj.Type().Underlying().(*types.Interface)
		if !ok {
			continue
		}
		comp := p.Pkg.Path()[strings.LastIndex(p.Pkg.Path(), "/")+1:]
		for i := 0; i < it.NumMethods(); i++ {
			out = append(out, comp+"."+it.Method(i).Name())
		}
	}
	sort.Strings(out)
	return out
}
