package main

import (
	"strconv"
	"os"
	"bufio"
	"fmt"
	"io"
	"os/exec"
	"strings"
	"time"
)

type solverLost struct{ msg string }

type Solver struct {
	closed   bool
	dead     bool     // the process was killed by the watchdog: queries go to the fallback until the stack is empty again
	bin      string
	args     []string
	opts     []string // options sent at start-up (re-sent on restart)
	curMs    int      // per-query limit currently in force
	lines    chan string
	Watchdog int      // queries cut off by the watchdog (the back end ignored its own time limit)
	baseMs   int
	name     string
	fallback *Solver
	usedFB   bool
	Fallbacks int
	cmd     *exec.Cmd
	in      io.WriteCloser
	out     *bufio.Reader
	defined map[int]bool
	depth   int
	Queries int
	Sat     int
	Unsat   int
	Unknown int
	Time    time.Duration
	MaxQ    time.Duration
	Slow    int
	log     io.Writer
	logLeft int // check-sat commands still to be logged (the stream is cut after that many)
}

func NewSolver(bin string, args ...string) *Solver {
	s := &Solver{bin: bin, args: args}
	s.start()
	return s
}

func (s *Solver) start() {
	cmd := exec.Command(s.bin, s.args...)
	in, _ := cmd.StdinPipe()
	outp, _ := cmd.StdoutPipe()
	cmd.Stderr = cmd.Stdout
	if err := cmd.Start(); err != nil {
		panic(err)
	}
	s.cmd, s.in, s.defined, s.dead = cmd, in, map[int]bool{}, false
	lines := make(chan string, 64)
	s.lines = lines
	go func() {
		rd := bufio.NewReader(outp)
		for {
			l, err := rd.ReadString('\n')
			if err != nil {
				close(lines)
				return
			}
			lines <- strings.TrimSpace(l)
		}
	}()
	s.send("(set-option :global-declarations true)")
	s.send("(set-option :produce-models true)")
	for _, o := range s.opts {
		s.send(o)
	}
}

// option sends an option now and after every restart.
func (s *Solver) option(o string) {
	s.opts = append(s.opts, o)
	s.send(o)
}

func (s *Solver) send(l string) {
	if s.dead {
		return
	}
	if s.log != nil {
		fmt.Fprintln(s.log, l)
	}
	io.WriteString(s.in, l+"\n")
}

func (s *Solver) readLine() string {
	l, ok := <-s.lines
	if !ok {
		panic("solver died")
	}
	return l
}

// readLineWithin waits at most d for the next line (false: nothing came).
func (s *Solver) readLineWithin(d time.Duration) (string, bool) {
	select {
	case l, ok := <-s.lines:
		if !ok {
			panic("solver died")
		}
		return l, true
	case <-time.After(d):
		return "", false
	}
}

// define makes sure t and all its sub-terms are known to the solver.
func (s *Solver) define(t *Term) {
	if s.dead || t.Op == "const" || s.defined[t.id] {
		return
	}
	for _, a := range t.Args {
		s.define(a)
	}
	s.defined[t.id] = true
	if t.Op == "var" {
		s.send(fmt.Sprintf("(declare-const %s %s)", t.Name, t.S))
		return
	}
	s.send(fmt.Sprintf("(define-fun t!%d () %s %s)", t.id, t.S, t.body()))
}

func (s *Solver) Push(t *Term) {
	if s.fallback != nil {
		s.fallback.Push(t)
	}
	s.define(t)
	s.send("(push 1)")
	s.send("(assert " + t.ref() + ")")
	s.depth++
}

func (s *Solver) PopAll() {
	if s.fallback != nil {
		s.fallback.PopAll()
	}
	if s.dead {
		// the stack is empty again: a fresh process takes over
		s.depth = 0
		s.start()
		s.setTimeout(s.baseMs)
		return
	}
	if s.depth > 0 {
		s.send(fmt.Sprintf("(pop %d)", s.depth))
		s.depth = 0
	}
}

// Check decides satisfiability of the current stack plus extra.
// Returns "sat", "unsat" or "unknown".
func (s *Solver) Check(extra *Term) string {
	t0 := time.Now()
	r := "unknown"
	if !s.dead {
		s.define(extra)
		s.send("(push 1)")
		s.send("(assert " + extra.ref() + ")")
		s.send("(check-sat)")
		// watchdog: a back end that ignores its own limit (z3 inside preprocessing) is killed; the answer is unknown
		ms := s.curMs
		if ms <= 0 {
			ms = s.baseMs
		}
		hard := time.Duration(3*ms)*time.Millisecond + 10*time.Second
		if v, err := strconv.Atoi(os.Getenv("GOSX_HARD_MS")); err == nil && v > 0 {
			hard = time.Duration(v) * time.Millisecond // (test hook for the watchdog itself)
		}
		for {
			l, ok := s.readLineWithin(hard)
			if !ok {
				s.Watchdog++
				s.in.Close()
				s.cmd.Process.Kill()
				s.cmd.Wait()
				if s.fallback == nil {
					panic(solverLost{"watchdog: no answer from " + s.name})
				}
				s.dead = true
				r = "unknown"
				break
			}
			if l == "sat" || l == "unsat" || l == "unknown" {
				r = l
				break
			}
			if strings.HasPrefix(l, "(error") {
				if strings.Contains(l, "canceled") || strings.Contains(l, "interrupted") {
					panic(solverLost{l}) // the back end gave up in the middle of a command: the worker restarts it and redoes the path
				}
				panic("solver error: " + l)
			}
		}
	}
	if s.log != nil {
		// this back end's own answer, for the cross-check of the stream on another solver
		fmt.Fprintf(s.log, "; answer %s\n", r)
		s.logLeft--
		if s.logLeft <= 0 || s.dead {
			s.log = nil
		}
	}
	if r == "unknown" && s.fallback != nil {
		s.Fallbacks++
		s.usedFB = true
		r = s.fallback.Check(extra)
	}
	s.Queries++
	switch r {
	case "sat":
		s.Sat++
	case "unsat":
		s.Unsat++
	default:
		s.Unknown++
	}
	d := time.Since(t0)
	s.Time += d
	if d > s.MaxQ {
		s.MaxQ = d
	}
	if d > 100*time.Millisecond {
		s.Slow++
	}
	if d > time.Second && os.Getenv("GOSX_SLOW") != "" {
		fmt.Printf("SLOW %v r=%s depth=%d extra=%s\n", d, r, s.depth, truncate(expand(extra, 3), 300))
	}
	return r
}

// setTimeout changes the per-query limit of this back end (and not of its fallback).
func (s *Solver) setTimeout(ms int) {
	s.curMs = ms
	if strings.HasPrefix(s.name, "z3") {
		s.send(fmt.Sprintf("(set-option :timeout %d)", ms))
	} else {
		s.send(fmt.Sprintf("(set-option :tlimit-per %d)", ms))
	}
}

// CheckPatient re-decides a query that came back unknown with a much longer limit on both back ends
// (used for assertion queries only: an unknown assertion makes the whole harness inconclusive).
func (s *Solver) CheckPatient(extra *Term, ms int) string {
	s.setTimeout(ms)
	if s.fallback != nil {
		s.fallback.setTimeout(ms)
	}
	r := s.Check(extra)
	s.setTimeout(s.baseMs)
	if s.fallback != nil {
		s.fallback.setTimeout(s.fallback.baseMs)
	}
	return r
}

// after a sat Check (before EndCheck) fetch values
func (s *Solver) Values(ts []*Term) []string {
	if s.usedFB {
		return s.fallback.Values(ts)
	}
	var out []string
	for _, t := range ts {
		s.send("(get-value (" + t.ref() + "))")
		l := s.readLine()
		// may span lines for big values; keep reading until parens balance
		for strings.Count(l, "(") > strings.Count(l, ")") {
			l += " " + s.readLine()
		}
		out = append(out, l)
	}
	return out
}

func (s *Solver) EndCheck() {
	if s.usedFB {
		s.fallback.EndCheck()
		s.usedFB = false
	}
	s.send("(pop 1)")
}

// Kill ends the back ends without ceremony (used when a back end lost synchronisation).
func (s *Solver) Kill() {
	if s.fallback != nil {
		s.fallback.Kill()
	}
	s.closed = true
	if s.dead {
		return
	}
	s.in.Close()
	s.cmd.Process.Kill()
	s.cmd.Wait()
}

func (s *Solver) Close() {
	if s.closed {
		return
	}
	if s.fallback != nil {
		s.fallback.Close()
	}
	if s.dead {
		return
	}
	s.send("(exit)")
	s.in.Close()
	s.cmd.Wait()
}

// newSolverPair starts the two back ends of a profile, kept in lock-step (same push/pop stack).
//
//	bit   : z3 with a short soft timeout, cvc5 --solve-bv-as-int=sum as fallback
//	arith : the same two in the opposite order
func newSolverPair(profile, tier string, seed int64) *Solver {
	short, long := 1500, 20000
	if tier == "thorough" {
		short, long = 4000, 120000
	}
	mkZ3 := func(ms int) *Solver {
		s := NewSolver("z3", "-in")
		s.name = "z3"
		s.baseMs = ms
		s.curMs = ms
		s.send(fmt.Sprintf("(set-option :timeout %d)", ms))
		s.option(fmt.Sprintf("(set-option :random-seed %d)", seed%1000000))
		return s
	}
	mkCVC := func(ms int) *Solver {
		s := NewSolver("cvc5", "--incremental", "--lang=smt2", "--solve-bv-as-int=sum", fmt.Sprintf("--tlimit-per=%d", ms), fmt.Sprintf("--seed=%d", seed%1000000))
		s.name = "cvc5(bv-as-int)"
		s.baseMs = ms
		s.curMs = ms
		return s
	}
	if profile == "arith" {
		s := mkCVC(short)
		s.fallback = mkZ3(long)
		return s
	}
	s := mkZ3(short)
	s.fallback = mkCVC(long)
	return s
}

func truncate(x string, n int) string {
	if len(x) > n {
		return x[:n] + "..."
	}
	return x
}

// expand prints a term with sub-terms inlined to a given depth.
func expand(t *Term, d int) string {
	if t.Op == "const" || t.Op == "var" || d == 0 {
		return t.ref()
	}
	out := "(" + t.Op
	for _, a := range t.Args {
		out += " " + expand(a, d-1)
	}
	return out + ")"
}


// crossCheck replays a logged SMT-LIB stream (one worker's complete dialogue with its first back end) on another solver
// and compares the check-sat answers one by one. Definite answers (sat / unsat) must agree; unknown on either side is
// skipped. Returns the number of answers compared and a description of every disagreement.
func crossCheck(logFile, bin string, args []string, limit time.Duration) (compared int, disagreements []string, note string) {
	data, err := os.ReadFile(logFile)
	if err != nil {
		return 0, nil, "no stream logged"
	}
	var want []string
	for _, l := range strings.Split(string(data), "\n") {
		if strings.HasPrefix(l, "; answer ") {
			want = append(want, strings.TrimPrefix(l, "; answer "))
		}
	}
	cmd := exec.Command(bin, args...)
	cmd.Stdin = strings.NewReader("(set-option :global-declarations true)\n(set-option :produce-models true)\n" + string(data) + "\n(exit)\n")
	outp, _ := cmd.StdoutPipe()
	cmd.Stderr = cmd.Stdout
	if err := cmd.Start(); err != nil {
		return 0, nil, "cannot start " + bin
	}
	timer := time.AfterFunc(limit, func() { cmd.Process.Kill() })
	defer timer.Stop()
	rd := bufio.NewReader(outp)
	k := 0
	for {
		l, err := rd.ReadString('\n')
		if err != nil {
			break
		}
		l = strings.TrimSpace(l)
		if strings.HasPrefix(l, "(error") && !strings.Contains(l, "model is not available") && len(disagreements) < 5 {
			// an error line makes the replay unusable from here on (the stacks no longer correspond)
			disagreements = append(disagreements, "error line from "+bin+": "+truncate(l, 160))
		}
		if l != "sat" && l != "unsat" && l != "unknown" {
			continue
		}
		if k >= len(want) {
			break
		}
		if l != "unknown" && want[k] != "unknown" {
			compared++
			if l != want[k] {
				if len(disagreements) < 5 {
					disagreements = append(disagreements, fmt.Sprintf("query %d: %s vs %s", k, want[k], l))
				} else if len(disagreements) == 5 {
					disagreements = append(disagreements, "...")
				}
			}
		}
		k++
	}
	cmd.Wait()
	if k < len(want) && note == "" {
		note = fmt.Sprintf("replay ended after %d of %d queries (time limit)", k, len(want))
	}
	return
}
