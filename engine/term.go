package main

import (
	"sync"
	"sync/atomic"
	"fmt"
	"math/big"
	"strings"
)

// Sorts: "Bool", "Int", or bit-vector width w>0.
type Sort struct {
	K int // 0 bool, 1 int, 2 bv
	W int
}

var (
	SBool = Sort{K: 0}
	SInt  = Sort{K: 1}
)

func BV(w int) Sort { return Sort{K: 2, W: w} }

func (s Sort) String() string {
	switch s.K {
	case 0:
		return "Bool"
	case 1:
		return "Int"
	}
	return fmt.Sprintf("(_ BitVec %d)", s.W)
}

type Term struct {
	id   int
	Op   string // "const","var", smt op name, "extract","zext","sext"
	S    Sort
	Args []*Term
	C    *big.Int // const value (bv: unsigned normalised; bool: 0/1)
	Name string   // var name
	P1   int      // extract hi / ext amount
	P2   int      // extract lo
}

type termKey struct {
	op, name   string
	k, w       int
	small      uint64 // const value when it fits
	big        string // const value otherwise
	hasC       bool
	p1, p2     int
	n          int
	a0, a1, a2 int
	rest       string
}

const nShards = 64

type termShard struct {
	mu  sync.Mutex
	tab map[termKey]*Term
}

type TermFactory struct {
	shards [nShards]termShard
	next   atomic.Int64
}

var TF = newTermFactory()

func newTermFactory() *TermFactory {
	f := &TermFactory{}
	for i := range f.shards {
		f.shards[i].tab = map[termKey]*Term{}
	}
	return f
}

func (f *TermFactory) intern(t *Term) *Term {
	k := termKey{op: t.Op, name: t.Name, k: t.S.K, w: t.S.W, p1: t.P1, p2: t.P2, n: len(t.Args)}
	h := uint64(len(t.Op))*131 + uint64(t.S.W)
	if t.C != nil {
		k.hasC = true
		if t.C.IsUint64() {
			k.small = t.C.Uint64()
			h = h*31 + k.small
		} else {
			k.big = t.C.Text(32)
			h = h*31 + uint64(len(k.big)) + uint64(k.big[len(k.big)-1])
		}
	}
	for i, a := range t.Args {
		switch i {
		case 0:
			k.a0 = a.id
		case 1:
			k.a1 = a.id
		case 2:
			k.a2 = a.id
		default:
			k.rest += fmt.Sprintf(",%d", a.id)
		}
		h = h*1000003 + uint64(a.id)
	}
	for i := 0; i < len(t.Name); i++ {
		h = h*31 + uint64(t.Name[i])
	}
	sh := &f.shards[h%nShards]
	sh.mu.Lock()
	if x, ok := sh.tab[k]; ok {
		sh.mu.Unlock()
		return x
	}
	t.id = int(f.next.Add(1))
	sh.tab[k] = t
	sh.mu.Unlock()
	return t
}

var maskCache sync.Map

func mask(w int) *big.Int {
	if m, ok := maskCache.Load(w); ok {
		return m.(*big.Int)
	}
	m := new(big.Int).Lsh(big.NewInt(1), uint(w))
	m.Sub(m, big.NewInt(1))
	maskCache.Store(w, m)
	return m
}

// small constants are created constantly by the interpreter: keep them in tables
var smallConsts [65][]*Term

func init() {
	for _, w := range []int{8, 16, 32, 64} {
		smallConsts[w] = make([]*Term, 300)
		for v := 0; v < 300; v++ {
			if w == 8 && v > 255 {
				break
			}
			smallConsts[w][v] = TF.intern(&Term{Op: "const", S: BV(w), C: big.NewInt(int64(v))})
		}
	}
}

func BVConst(v *big.Int, w int) *Term {
	x := new(big.Int).And(v, mask(w)) // two's complement normalisation for negatives
	if v.Sign() < 0 {
		x = new(big.Int).Add(new(big.Int).Lsh(big.NewInt(1), uint(w)), v)
		x.And(x, mask(w))
	}
	return TF.intern(&Term{Op: "const", S: BV(w), C: x})
}
func BVConstI(v int64, w int) *Term {
	if v >= 0 && w <= 64 && smallConsts[w] != nil && v < int64(len(smallConsts[w])) && smallConsts[w][v] != nil {
		return smallConsts[w][v]
	}
	return BVConst(big.NewInt(v), w)
}
var boolTrue = TF.intern(&Term{Op: "const", S: SBool, C: big.NewInt(1)})
var boolFalse = TF.intern(&Term{Op: "const", S: SBool, C: big.NewInt(0)})

func BoolConst(b bool) *Term {
	if b {
		return boolTrue
	}
	return boolFalse
}
func IntConst(v *big.Int) *Term { return TF.intern(&Term{Op: "const", S: SInt, C: new(big.Int).Set(v)}) }
func Var(name string, s Sort) *Term { return TF.intern(&Term{Op: "var", S: s, Name: name}) }

var True, False = BoolConst(true), BoolConst(false)

func (t *Term) IsConst() bool { return t.Op == "const" }
func (t *Term) IsTrue() bool  { return t == True }
func (t *Term) IsFalse() bool { return t == False }

// signed value of a bv const
func (t *Term) Signed() *big.Int {
	if t.C.Bit(t.S.W-1) == 1 {
		return new(big.Int).Sub(t.C, new(big.Int).Lsh(big.NewInt(1), uint(t.S.W)))
	}
	return t.C
}

func mk(op string, s Sort, args ...*Term) *Term {
	return TF.intern(&Term{Op: op, S: s, Args: args})
}

func Not(a *Term) *Term {
	if a.IsConst() {
		return BoolConst(a.IsFalse())
	}
	if a.Op == "not" {
		return a.Args[0]
	}
	return mk("not", SBool, a)
}
func And(a, b *Term) *Term {
	if a.IsFalse() || b.IsFalse() {
		return False
	}
	if a.IsTrue() {
		return b
	}
	if b.IsTrue() {
		return a
	}
	if a == b {
		return a
	}
	return mk("and", SBool, a, b)
}
func Or(a, b *Term) *Term {
	if a.IsTrue() || b.IsTrue() {
		return True
	}
	if a.IsFalse() {
		return b
	}
	if b.IsFalse() {
		return a
	}
	if a == b {
		return a
	}
	return mk("or", SBool, a, b)
}
func Ite(c, a, b *Term) *Term {
	if c.IsTrue() {
		return a
	}
	if c.IsFalse() {
		return b
	}
	if a == b {
		return a
	}
	return mk("ite", a.S, c, a, b)
}
func Eq(a, b *Term) *Term {
	if a == b {
		return True
	}
	if a.IsConst() && b.IsConst() {
		return BoolConst(a.C.Cmp(b.C) == 0)
	}
	return mk("=", SBool, a, b)
}

// BV binary arithmetic with constant folding. op is SMT name.
func BVBin(op string, a, b *Term) *Term {
	w := a.S.W
	if a.IsConst() && b.IsConst() {
		x, y := a.C, b.C
		r := new(big.Int)
		switch op {
		case "bvadd":
			r.Add(x, y)
		case "bvsub":
			r.Sub(x, y)
		case "bvmul":
			r.Mul(x, y)
		case "bvand":
			r.And(x, y)
		case "bvor":
			r.Or(x, y)
		case "bvxor":
			r.Xor(x, y)
		case "bvudiv":
			if y.Sign() == 0 {
				return mk(op, a.S, a, b)
			}
			r.Quo(x, y)
		case "bvurem":
			if y.Sign() == 0 {
				return mk(op, a.S, a, b)
			}
			r.Rem(x, y)
		case "bvsdiv":
			if y.Sign() == 0 {
				return mk(op, a.S, a, b)
			}
			r.Quo(a.Signed(), b.Signed())
		case "bvsrem":
			if y.Sign() == 0 {
				return mk(op, a.S, a, b)
			}
			r.Rem(a.Signed(), b.Signed())
		case "bvshl":
			if y.Cmp(big.NewInt(int64(w))) >= 0 {
				r.SetInt64(0)
			} else {
				r.Lsh(x, uint(y.Int64()))
			}
		case "bvlshr":
			if y.Cmp(big.NewInt(int64(w))) >= 0 {
				r.SetInt64(0)
			} else {
				r.Rsh(x, uint(y.Int64()))
			}
		case "bvashr":
			sh := uint(w)
			if y.Cmp(big.NewInt(int64(w))) < 0 {
				sh = uint(y.Int64())
			}
			r.Rsh(a.Signed(), sh)
		default:
			return mk(op, a.S, a, b)
		}
		return BVConst(r, w)
	}
	return mk(op, a.S, a, b)
}

// BV comparison: op in bvult bvule bvugt bvuge bvslt bvsle bvsgt bvsge
func BVCmp(op string, a, b *Term) *Term {
	if a.IsConst() && b.IsConst() {
		var c int
		if op[2] == 'u' {
			c = a.C.Cmp(b.C)
		} else {
			c = a.Signed().Cmp(b.Signed())
		}
		switch op[3:] {
		case "lt":
			return BoolConst(c < 0)
		case "le":
			return BoolConst(c <= 0)
		case "gt":
			return BoolConst(c > 0)
		case "ge":
			return BoolConst(c >= 0)
		}
	}
	return mk(op, SBool, a, b)
}

func BVNeg(a *Term) *Term {
	if a.IsConst() {
		return BVConst(new(big.Int).Neg(a.C), a.S.W)
	}
	return mk("bvneg", a.S, a)
}
func BVNot(a *Term) *Term {
	if a.IsConst() {
		return BVConst(new(big.Int).Xor(a.C, mask(a.S.W)), a.S.W)
	}
	return mk("bvnot", a.S, a)
}

// Resize converts a bv term to width w (truncate / zero- or sign-extend).
func Resize(a *Term, w int, signedSrc bool) *Term {
	sw := a.S.W
	if sw == w {
		return a
	}
	if a.IsConst() {
		if signedSrc {
			return BVConst(a.Signed(), w)
		}
		return BVConst(a.C, w)
	}
	if w < sw {
		return TF.intern(&Term{Op: "extract", S: BV(w), Args: []*Term{a}, P1: w - 1, P2: 0})
	}
	op := "zext"
	if signedSrc {
		op = "sext"
	}
	return TF.intern(&Term{Op: op, S: BV(w), Args: []*Term{a}, P1: w - sw})
}

// ---- printing -------------------------------------------------------------

func (t *Term) ref() string {
	switch t.Op {
	case "const":
		switch t.S.K {
		case 0:
			if t.C.Sign() != 0 {
				return "true"
			}
			return "false"
		case 1:
			if t.C.Sign() < 0 {
				return "(- " + new(big.Int).Neg(t.C).String() + ")"
			}
			return t.C.String()
		default:
			return fmt.Sprintf("(_ bv%s %d)", t.C.String(), t.S.W)
		}
	case "var":
		return t.Name
	}
	return fmt.Sprintf("t!%d", t.id)
}

func (t *Term) body() string {
	var sb strings.Builder
	switch t.Op {
	case "extract":
		fmt.Fprintf(&sb, "((_ extract %d %d) %s)", t.P1, t.P2, t.Args[0].ref())
	case "zext":
		fmt.Fprintf(&sb, "((_ zero_extend %d) %s)", t.P1, t.Args[0].ref())
	case "sext":
		fmt.Fprintf(&sb, "((_ sign_extend %d) %s)", t.P1, t.Args[0].ref())
	case "int2bv64":
		fmt.Fprintf(&sb, "((_ int2bv 64) %s)", t.Args[0].ref())
	default:
		sb.WriteByte('(')
		sb.WriteString(t.Op)
		for _, a := range t.Args {
			sb.WriteByte(' ')
			sb.WriteString(a.ref())
		}
		sb.WriteByte(')')
	}
	return sb.String()
}

// ---- integer theory ------------------------------------------------------------

func IntBin(op string, a, b *Term) *Term {
	if a.IsConst() && b.IsConst() {
		r := new(big.Int)
		switch op {
		case "+":
			return IntConst(r.Add(a.C, b.C))
		case "-":
			return IntConst(r.Sub(a.C, b.C))
		case "*":
			return IntConst(r.Mul(a.C, b.C))
		}
	}
	return mk(op, SInt, a, b)
}
func IntCmp(op string, a, b *Term) *Term {
	if a.IsConst() && b.IsConst() {
		c := a.C.Cmp(b.C)
		switch op {
		case "<":
			return BoolConst(c < 0)
		case "<=":
			return BoolConst(c <= 0)
		case ">":
			return BoolConst(c > 0)
		case ">=":
			return BoolConst(c >= 0)
		}
	}
	return mk(op, SBool, a, b)
}
func BV2Nat(a *Term) *Term {
	if a.IsConst() {
		return IntConst(a.C)
	}
	return mk("bv2nat", SInt, a)
}

var Two256 = IntConst(new(big.Int).Lsh(big.NewInt(1), 256))
