package main

import (
	"sync"
	"fmt"
	"math/big"
	"strings"
)

// Sorts: "Bool", "Int", or bit-vector width w>0.
type Sort struct {
	K int // 0 bool, 1 int, 2 bv
	W int
}

var (
	SBool = Sort{K: 0}
	SInt  = Sort{K: 1}
)

func BV(w int) Sort { return Sort{K: 2, W: w} }

func (s Sort) String() string {
	switch s.K {
	case 0:
		return "Bool"
	case 1:
		return "Int"
	}
	return fmt.Sprintf("(_ BitVec %d)", s.W)
}

type Term struct {
	id   int
	Op   string // "const","var", smt op name, "extract","zext","sext"
	S    Sort
	Args []*Term
	C    *big.Int // const value (bv: unsigned normalised; bool: 0/1)
	Name string   // var name
	P1   int      // extract hi / ext amount
	P2   int      // extract lo
}

type TermFactory struct {
	mu   sync.Mutex
	tab  map[string]*Term
	next int
}

var TF = &TermFactory{tab: map[string]*Term{}}

func (f *TermFactory) intern(t *Term) *Term {
	var sb strings.Builder
	sb.WriteString(t.Op)
	sb.WriteByte('|')
	sb.WriteString(t.S.String())
	sb.WriteByte('|')
	if t.C != nil {
		sb.WriteString(t.C.String())
	}
	sb.WriteByte('|')
	sb.WriteString(t.Name)
	fmt.Fprintf(&sb, "|%d|%d", t.P1, t.P2)
	for _, a := range t.Args {
		fmt.Fprintf(&sb, ",%d", a.id)
	}
	k := sb.String()
	f.mu.Lock()
	defer f.mu.Unlock()
	if x, ok := f.tab[k]; ok {
		return x
	}
	f.next++
	t.id = f.next
	f.tab[k] = t
	return t
}

func mask(w int) *big.Int {
	m := new(big.Int).Lsh(big.NewInt(1), uint(w))
	return m.Sub(m, big.NewInt(1))
}

func BVConst(v *big.Int, w int) *Term {
	x := new(big.Int).And(v, mask(w)) // two's complement normalisation for negatives
	if v.Sign() < 0 {
		x = new(big.Int).Add(new(big.Int).Lsh(big.NewInt(1), uint(w)), v)
		x.And(x, mask(w))
	}
	return TF.intern(&Term{Op: "const", S: BV(w), C: x})
}
func BVConstI(v int64, w int) *Term { return BVConst(big.NewInt(v), w) }
func BoolConst(b bool) *Term {
	c := big.NewInt(0)
	if b {
		c = big.NewInt(1)
	}
	return TF.intern(&Term{Op: "const", S: SBool, C: c})
}
func IntConst(v *big.Int) *Term { return TF.intern(&Term{Op: "const", S: SInt, C: new(big.Int).Set(v)}) }
func Var(name string, s Sort) *Term { return TF.intern(&Term{Op: "var", S: s, Name: name}) }

var True, False = BoolConst(true), BoolConst(false)

func (t *Term) IsConst() bool { return t.Op == "const" }
func (t *Term) IsTrue() bool  { return t == True }
func (t *Term) IsFalse() bool { return t == False }

// signed value of a bv const
func (t *Term) Signed() *big.Int {
	if t.C.Bit(t.S.W-1) == 1 {
		return new(big.Int).Sub(t.C, new(big.Int).Lsh(big.NewInt(1), uint(t.S.W)))
	}
	return t.C
}

func mk(op string, s Sort, args ...*Term) *Term {
	return TF.intern(&Term{Op: op, S: s, Args: args})
}

func Not(a *Term) *Term {
	if a.IsConst() {
		return BoolConst(a.IsFalse())
	}
	if a.Op == "not" {
		return a.Args[0]
	}
	return mk("not", SBool, a)
}
func And(a, b *Term) *Term {
	if a.IsFalse() || b.IsFalse() {
		return False
	}
	if a.IsTrue() {
		return b
	}
	if b.IsTrue() {
		return a
	}
	if a == b {
		return a
	}
	return mk("and", SBool, a, b)
}
func Or(a, b *Term) *Term {
	if a.IsTrue() || b.IsTrue() {
		return True
	}
	if a.IsFalse() {
		return b
	}
	if b.IsFalse() {
		return a
	}
	if a == b {
		return a
	}
	return mk("or", SBool, a, b)
}
func Ite(c, a, b *Term) *Term {
	if c.IsTrue() {
		return a
	}
	if c.IsFalse() {
		return b
	}
	if a == b {
		return a
	}
	return mk("ite", a.S, c, a, b)
}
func Eq(a, b *Term) *Term {
	if a == b {
		return True
	}
	if a.IsConst() && b.IsConst() {
		return BoolConst(a.C.Cmp(b.C) == 0)
	}
	return mk("=", SBool, a, b)
}

// BV binary arithmetic with constant folding. op is SMT name.
func BVBin(op string, a, b *Term) *Term {
	w := a.S.W
	if a.IsConst() && b.IsConst() {
		x, y := a.C, b.C
		r := new(big.Int)
		switch op {
		case "bvadd":
			r.Add(x, y)
		case "bvsub":
			r.Sub(x, y)
		case "bvmul":
			r.Mul(x, y)
		case "bvand":
			r.And(x, y)
		case "bvor":
			r.Or(x, y)
		case "bvxor":
			r.Xor(x, y)
		case "bvudiv":
			if y.Sign() == 0 {
				return mk(op, a.S, a, b)
			}
			r.Quo(x, y)
		case "bvurem":
			if y.Sign() == 0 {
				return mk(op, a.S, a, b)
			}
			r.Rem(x, y)
		case "bvsdiv":
			if y.Sign() == 0 {
				return mk(op, a.S, a, b)
			}
			r.Quo(a.Signed(), b.Signed())
		case "bvsrem":
			if y.Sign() == 0 {
				return mk(op, a.S, a, b)
			}
			r.Rem(a.Signed(), b.Signed())
		case "bvshl":
			if y.Cmp(big.NewInt(int64(w))) >= 0 {
				r.SetInt64(0)
			} else {
				r.Lsh(x, uint(y.Int64()))
			}
		case "bvlshr":
			if y.Cmp(big.NewInt(int64(w))) >= 0 {
				r.SetInt64(0)
			} else {
				r.Rsh(x, uint(y.Int64()))
			}
		case "bvashr":
			sh := uint(w)
			if y.Cmp(big.NewInt(int64(w))) < 0 {
				sh = uint(y.Int64())
			}
			r.Rsh(a.Signed(), sh)
		default:
			return mk(op, a.S, a, b)
		}
		return BVConst(r, w)
	}
	return mk(op, a.S, a, b)
}

// BV comparison: op in bvult bvule bvugt bvuge bvslt bvsle bvsgt bvsge
func BVCmp(op string, a, b *Term) *Term {
	if a.IsConst() && b.IsConst() {
		var c int
		if op[2] == 'u' {
			c = a.C.Cmp(b.C)
		} else {
			c = a.Signed().Cmp(b.Signed())
		}
		switch op[3:] {
		case "lt":
			return BoolConst(c < 0)
		case "le":
			return BoolConst(c <= 0)
		case "gt":
			return BoolConst(c > 0)
		case "ge":
			return BoolConst(c >= 0)
		}
	}
	return mk(op, SBool, a, b)
}

func BVNeg(a *Term) *Term {
	if a.IsConst() {
		return BVConst(new(big.Int).Neg(a.C), a.S.W)
	}
	return mk("bvneg", a.S, a)
}
func BVNot(a *Term) *Term {
	if a.IsConst() {
		return BVConst(new(big.Int).Xor(a.C, mask(a.S.W)), a.S.W)
	}
	return mk("bvnot", a.S, a)
}

// Resize converts a bv term to width w (truncate / zero- or sign-extend).
func Resize(a *Term, w int, signedSrc bool) *Term {
	sw := a.S.W
	if sw == w {
		return a
	}
	if a.IsConst() {
		if signedSrc {
			return BVConst(a.Signed(), w)
		}
		return BVConst(a.C, w)
	}
	if w < sw {
		return TF.intern(&Term{Op: "extract", S: BV(w), Args: []*Term{a}, P1: w - 1, P2: 0})
	}
	op := "zext"
	if signedSrc {
		op = "sext"
	}
	return TF.intern(&Term{Op: op, S: BV(w), Args: []*Term{a}, P1: w - sw})
}

// ---- printing -------------------------------------------------------------

func (t *Term) ref() string {
	switch t.Op {
	case "const":
		switch t.S.K {
		case 0:
			if t.C.Sign() != 0 {
				return "true"
			}
			return "false"
		case 1:
			if t.C.Sign() < 0 {
				return "(- " + new(big.Int).Neg(t.C).String() + ")"
			}
			return t.C.String()
		default:
			return fmt.Sprintf("(_ bv%s %d)", t.C.String(), t.S.W)
		}
	case "var":
		return t.Name
	}
	return fmt.Sprintf("t!%d", t.id)
}

func (t *Term) body() string {
	var sb strings.Builder
	switch t.Op {
	case "extract":
		fmt.Fprintf(&sb, "((_ extract %d %d) %s)", t.P1, t.P2, t.Args[0].ref())
	case "zext":
		fmt.Fprintf(&sb, "((_ zero_extend %d) %s)", t.P1, t.Args[0].ref())
	case "sext":
		fmt.Fprintf(&sb, "((_ sign_extend %d) %s)", t.P1, t.Args[0].ref())
	default:
		sb.WriteByte('(')
		sb.WriteString(t.Op)
		for _, a := range t.Args {
			sb.WriteByte(' ')
			sb.WriteString(a.ref())
		}
		sb.WriteByte(')')
	}
	return sb.String()
}

// ---- integer theory ------------------------------------------------------------

func IntBin(op string, a, b *Term) *Term {
	if a.IsConst() && b.IsConst() {
		r := new(big.Int)
		switch op {
		case "+":
			return IntConst(r.Add(a.C, b.C))
		case "-":
			return IntConst(r.Sub(a.C, b.C))
		case "*":
			return IntConst(r.Mul(a.C, b.C))
		}
	}
	return mk(op, SInt, a, b)
}
func IntCmp(op string, a, b *Term) *Term {
	if a.IsConst() && b.IsConst() {
		c := a.C.Cmp(b.C)
		switch op {
		case "<":
			return BoolConst(c < 0)
		case "<=":
			return BoolConst(c <= 0)
		case ">":
			return BoolConst(c > 0)
		case ">=":
			return BoolConst(c >= 0)
		}
	}
	return mk(op, SBool, a, b)
}
func BV2Nat(a *Term) *Term {
	if a.IsConst() {
		return IntConst(a.C)
	}
	return mk("bv2nat", SInt, a)
}

var Two256 = IntConst(new(big.Int).Lsh(big.NewInt(1), 256))
