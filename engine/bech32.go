package main

import (
	"fmt"
	"strings"
)

const b32charset = "qpzry9x8gf2tvdw0s3jn54khce6mua7l"

func b32polymod(values []byte) uint32 {
	gen := []uint32{0x3b6a57b2, 0x26508e6d, 0x1ea119fa, 0x3d4233dd, 0x2a1462b3}
	chk := uint32(1)
	for _, v := range values {
		b := chk >> 25
		chk = (chk&0x1ffffff)<<5 ^ uint32(v)
		for i := 0; i < 5; i++ {
			if (b>>uint(i))&1 == 1 {
				chk ^= gen[i]
			}
		}
	}
	return chk
}

func b32hrpExpand(hrp string) []byte {
	var out []byte
	for i := 0; i < len(hrp); i++ {
		out = append(out, hrp[i]>>5)
	}
	out = append(out, 0)
	for i := 0; i < len(hrp); i++ {
		out = append(out, hrp[i]&31)
	}
	return out
}

func convertBits(data []byte, from, to uint, pad bool) ([]byte, error) {
	acc, bits := uint32(0), uint(0)
	var out []byte
	maxv := uint32(1)<<to - 1
	for _, v := range data {
		acc = acc<<from | uint32(v)
		bits += from
		for bits >= to {
			bits -= to
			out = append(out, byte(acc>>bits&maxv))
		}
	}
	if pad {
		if bits > 0 {
			out = append(out, byte(acc<<(to-bits)&maxv))
		}
	} else if bits >= from || (acc<<(to-bits))&maxv != 0 {
		return nil, fmt.Errorf("invalid padding")
	}
	return out, nil
}

func bech32Encode(hrp string, data []byte) string {
	d5, _ := convertBits(data, 8, 5, true)
	values := append(b32hrpExpand(hrp), d5...)
	pm := b32polymod(append(values, 0, 0, 0, 0, 0, 0)) ^ 1
	var sb strings.Builder
	sb.WriteString(hrp)
	sb.WriteByte('1')
	for _, v := range d5 {
		sb.WriteByte(b32charset[v])
	}
	for i := 0; i < 6; i++ {
		sb.WriteByte(b32charset[(pm>>uint(5*(5-i)))&31])
	}
	return sb.String()
}

func bech32Decode(s string) (string, []byte, error) {
	if strings.ToLower(s) != s && strings.ToUpper(s) != s {
		return "", nil, fmt.Errorf("mixed case")
	}
	s = strings.ToLower(s)
	pos := strings.LastIndex(s, "1")
	if pos < 1 || pos+7 > len(s) {
		return "", nil, fmt.Errorf("bad separator")
	}
	hrp := s[:pos]
	var d []byte
	for i := pos + 1; i < len(s); i++ {
		k := strings.IndexByte(b32charset, s[i])
		if k < 0 {
			return "", nil, fmt.Errorf("bad char")
		}
		d = append(d, byte(k))
	}
	if b32polymod(append(b32hrpExpand(hrp), d...)) != 1 {
		return "", nil, fmt.Errorf("bad checksum")
	}
	out, err := convertBits(d[:len(d)-6], 5, 8, false)
	return hrp, out, err
}
