package h

import (
	"context"

	"cosmossdk.io/math"
	sdk "github.com/cosmos/cosmos-sdk/types"

	"github.com/noble-assets/orbiter/v2/types"
	dispatchertypes "github.com/noble-assets/orbiter/v2/types/component/dispatcher"
	actiontypes "github.com/noble-assets/orbiter/v2/types/controller/action"
	fwdtypes "github.com/noble-assets/orbiter/v2/types/controller/forwarding"
	"github.com/noble-assets/orbiter/v2/types/core"
	"github.com/noble-assets/orbiter/v2/zzverif/verif"
)

func init() {
	reg("H_C12_step", H_C12_step)
}

// denomSwap is an action controller registered under ACTION_SWAP that replaces the running coin by (amount', denom')
// and gives the orbiter account that coin (so that the forwarder's balance precondition can hold).
type denomSwap struct {
	l        *Ledger
	newDenom string
	newAmt   math.Int
	amountFirst bool
	saw      []sdk.Coin
	ran      int
}

func (s *denomSwap) ID() core.ActionID { return core.ACTION_SWAP }
func (s *denomSwap) Name() string      { return "denom-swap" }
func (s *denomSwap) HandlePacket(ctx context.Context, p *types.ActionPacket) error {
	s.ran++
	ta := p.TransferAttributes
	s.saw = append(s.saw, sdk.Coin{Denom: ta.DestinationDenom(), Amount: ta.DestinationAmount()})
	s.l.setIn(ctx, core.ModuleAddress, ta.DestinationDenom(), math.ZeroInt())
	s.l.setIn(ctx, core.ModuleAddress, s.newDenom, s.l.balIn(ctx, core.ModuleAddress, s.newDenom).Add(s.newAmt)) // on top of what the account already holds
	// (a controller may set the two attributes in either order)
	if s.amountFirst {
		ta.SetDestinationAmount(s.newAmt)
		ta.SetDestinationDenom(s.newDenom)
	} else {
		ta.SetDestinationDenom(s.newDenom)
		ta.SetDestinationAmount(s.newAmt)
	}
	return nil
}

type statKey struct {
	src, dst core.CrossChainID
	denom    string
}

// H_C12_step: one-step induction. Arbitrary pre-existing statistics (entries that coincide with the new transfer's keys or
// differ from them in exactly one component), one transfer over any route, with or without fee / denomination change,
// succeeding or failing in the bridge.
func H_C12_step() {
	sw := &denomSwap{}
	w := newWorldSwap(sw)
	d := w.K.Dispatcher()
	ctx := w.Ctx

	A := verif.BigInt("A")
	verif.Assume(A.IsPositive() && A.LT(math.NewIntWithDecimal(1, 60)))
	src := core.CrossChainID{ProtocolId: core.PROTOCOL_IBC, CounterpartyId: "channel-0"}
	ta, err := core.NewTransferAttributes(src.ProtocolId, src.CounterpartyId, nativeDenom, A)
	must(err)

	// destination
	var f *core.Forwarding
	var dst, otherDst core.CrossChainID
	route := verif.Choose("route", 3)
	switch route {
	case 0:
		dom := uint32(7) // (identifier syntax over all domains: C20; index keys over symbolic domains: C13)
		f, err = fwdtypes.NewCCTPForwarding(dom, []byte{1}, nil, nil)
		dst = core.CrossChainID{ProtocolId: core.PROTOCOL_CCTP, CounterpartyId: (&fwdtypes.CCTPAttributes{DestinationDomain: dom}).CounterpartyID()}
		if verif.Bool("other-dst-differs-in-protocol") {
			otherDst = core.CrossChainID{ProtocolId: core.PROTOCOL_HYPERLANE, CounterpartyId: dst.CounterpartyId}
		} else {
			otherDst = core.CrossChainID{ProtocolId: core.PROTOCOL_CCTP, CounterpartyId: "4294967295"}
		}
	case 1:
		dom := uint32(9)
		f, err = fwdtypes.NewHyperlaneForwarding(make([]byte, 32), dom, make([]byte, 32), nil, "", math.ZeroInt(), sdk.Coin{Denom: "uusdc", Amount: math.ZeroInt()}, nil)
		dst = core.CrossChainID{ProtocolId: core.PROTOCOL_HYPERLANE, CounterpartyId: (&fwdtypes.HypAttributes{DestinationDomain: dom}).CounterpartyID()}
		otherDst = core.CrossChainID{ProtocolId: core.PROTOCOL_CCTP, CounterpartyId: dst.CounterpartyId}
	default:
		f, err = fwdtypes.NewInternalForwarding(user1.String())
		dst = core.CrossChainID{ProtocolId: core.PROTOCOL_INTERNAL, CounterpartyId: fwdtypes.CounterpartyID}
		otherDst = core.CrossChainID{ProtocolId: core.PROTOCOL_INTERNAL, CounterpartyId: "nobl"}
	}
	must(err)
	otherSrc := core.CrossChainID{ProtocolId: core.PROTOCOL_IBC, CounterpartyId: "channel-1"}

	// actions: none / fee / denomination change (only where the route can carry another denom: internal)
	var acts []*core.Action
	mode := verif.Choose("actions", 3)
	if mode == 2 && route != 2 {
		mode = 0
	}
	dstDenom := nativeDenom
	switch mode {
	case 1:
		bps, err := actiontypes.NewFeeBasisPoints(verif.Uint32("bps"))
		if err != nil {
			return
		}
		fi, err := actiontypes.NewFeeInfo(feeR1.String(), bps)
		must(err)
		a, err := actiontypes.NewFeeAction(fi)
		must(err)
		acts = append(acts, a)
	case 2:
		sw.newDenom = "uother"
		sw.newAmt = verif.BigInt("swapped-amount")
		verif.Assume(sw.newAmt.IsPositive() && sw.newAmt.LT(math.NewIntWithDecimal(1, 60)))
		a, err := core.NewAction(core.ACTION_SWAP, &actiontypes.FeeAttributes{})
		must(err)
		acts = append(acts, a)
		dstDenom = "uother"
	}
	pl, err := core.NewPayload(f, acts...)
	must(err)

	// ---- arbitrary pre-existing statistics ----------------------------------------------------------------------------
	keys := []statKey{{src, dst, nativeDenom}, {src, dst, dstDenom}, {otherSrc, dst, nativeDenom}, {src, otherDst, nativeDenom}, {src, dst, "uthird"}}
	pre := make([]dispatchertypes.AmountDispatched, len(keys))
	for i := range keys {
		pre[i] = dispatchertypes.AmountDispatched{Incoming: math.ZeroInt(), Outgoing: math.ZeroInt()}
	}
	for n := 0; n < verif.Bound("preEntries"); n++ {
		if !verif.Bool("pre-entry") {
			continue
		}
		i := verif.Choose("pre-entry-key", len(keys))
		if i == 1 && dstDenom == nativeDenom {
			i = 0
		}
		in, out := verif.BigInt("pre-incoming"), verif.BigInt("pre-outgoing")
		// any recorded totals, up to the largest value the type holds: an accumulation that no longer fits aborts the
		// transaction today (math.Int panics above 256 bits), so the transfer is not a successful one
		verif.Assume(!in.IsNegative() && !out.IsNegative())
		pre[i] = dispatchertypes.AmountDispatched{Incoming: in, Outgoing: out}
		must(d.SetDispatchedAmount(ctx, &keys[i].src, &keys[i].dst, keys[i].denom, pre[i]))
	}
	ckeys := []statKey{{src, dst, ""}, {otherSrc, dst, ""}, {src, otherDst, ""}}
	cpre := make([]uint64, len(ckeys))
	for n := 0; n < verif.Bound("preEntries"); n++ {
		if !verif.Bool("pre-count") {
			continue
		}
		i := verif.Choose("pre-count-key", len(ckeys))
		c := verif.Uint64("pre-count-value")
		verif.Assume(c > 0) // (up to and including the largest value: a saturated counter must not disturb the totals)
		cpre[i] = c
		must(d.SetDispatchedCounts(ctx, &ckeys[i].src, &ckeys[i].dst, c))
	}
	verif.Cover("pre-state-built")

	// ---- optionally the same transfer was executed before inside a transaction that was discarded (a later message of it
	// failed, or the receive ended in an error acknowledgement): it is not one of the successful transfers
	if verif.Bool("the-same-transfer-ran-before-in-a-discarded-transaction") {
		ta0, err := core.NewTransferAttributes(src.ProtocolId, src.CounterpartyId, nativeDenom, A)
		must(err)
		w.L.Set(core.ModuleAddress, nativeDenom, A)
		_, _ = verif.AtomicallyOrAbort(ctx, func(ctx sdk.Context) error {
			if d.DispatchPayload(ctx, ta0, pl) == nil {
				verif.Cover("discarded-dispatch-succeeded")
			}
			return errRevert
		})
		w.CCTP.reqs, w.Hyp.reqs, w.Int.reqs = nil, nil, nil
	}

	// ---- the transfer: ICS-20 has credited A; the bridge may refuse ------------------------------------------------------
	w.L.Set(core.ModuleAddress, nativeDenom, A)
	w.CCTP.faults, w.Hyp.faults, w.Int.faults = true, true, true
	d0 := verif.StateDigest(ctx)
	err, aborted := verif.AtomicallyOrAbort(ctx, func(ctx sdk.Context) error { return d.DispatchPayload(ctx, ta, pl) })
	if aborted {
		verif.Cover("transaction-aborted")
		verif.Assert(verif.StateDigest(ctx) == d0, "aborted-transfer-leaves-statistics-unchanged")
		return
	}
	if err != nil {
		verif.Cover("transfer-refused")
		verif.Assert(verif.StateDigest(ctx) == d0, "refused-transfer-leaves-statistics-unchanged")
		return
	}
	verif.Cover("transfer-succeeded")
	out := ta.DestinationAmount()
	for i, k := range keys {
		if i == 1 && dstDenom == nativeDenom {
			continue
		}
		got := d.GetDispatchedAmount(ctx, &k.src, &k.dst, k.denom).AmountDispatched
		// expected totals in unbounded integers (the reference must not wrap or panic where the code might)
		wantIn, wantOut := verif.ZOf(pre[i].Incoming), verif.ZOf(pre[i].Outgoing)
		if i == 0 {
			wantIn = verif.ZAdd(wantIn, verif.ZOf(A))
			if dstDenom == nativeDenom {
				wantOut = verif.ZAdd(wantOut, verif.ZOf(out))
			}
		}
		if i == 1 {
			wantOut = verif.ZAdd(wantOut, verif.ZOf(out))
		}
		if i <= 1 {
			verif.Assert(verif.ZEq(verif.ZOf(got.Incoming), wantIn), "incoming-total-accumulates-the-received-amount")
			verif.Assert(verif.ZEq(verif.ZOf(got.Outgoing), wantOut), "outgoing-total-accumulates-the-forwarded-amount")
		} else {
			verif.Assert(verif.ZEq(verif.ZOf(got.Incoming), wantIn) && verif.ZEq(verif.ZOf(got.Outgoing), wantOut), "other-entries-unchanged")
		}
	}
	for i, k := range ckeys {
		got := d.GetDispatchedCounts(ctx, &k.src, &k.dst).Count
		want := cpre[i]
		if i == 0 {
			if want == 18446744073709551615 {
				// 2^64-1 transfers on one route: the counter cannot go further (the code logs the overflow and goes on);
				// nothing is asserted about it, the totals above must still be right
				verif.Cover("count-saturated")
				continue
			}
			want++
			verif.Assert(got == want, "count-increases-by-one")
		} else {
			verif.Assert(got == want, "other-counts-unchanged")
		}
	}
	// forwarded amount as recorded is what left the orbiter account
	if mode == 1 {
		verif.Assert(out.Add(w.L.Bal(feeR1, nativeDenom)).Equal(A), "incoming-minus-outgoing-is-the-fee")
	}
}
