package h

// harnesses maps harness names to functions for the native replay driver (the engine looks the
// functions up by name in the SSA package and never runs init).
var harnesses = map[string]func(){}

func reg(name string, f func()) { harnesses[name] = f }
