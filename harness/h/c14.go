package h

import (
	"cosmossdk.io/math"
	sdk "github.com/cosmos/cosmos-sdk/types"
	transfertypes "github.com/cosmos/ibc-go/v8/modules/apps/transfer/types"
	channeltypes "github.com/cosmos/ibc-go/v8/modules/core/04-channel/types"

	"github.com/noble-assets/orbiter/v2/types"
	actiontypes "github.com/noble-assets/orbiter/v2/types/controller/action"
	fwdtypes "github.com/noble-assets/orbiter/v2/types/controller/forwarding"
	"github.com/noble-assets/orbiter/v2/types/core"
	"github.com/noble-assets/orbiter/v2/zzverif/verif"
)

func H_C14_action_shapes()     { H_C14_shapes() }
func H_C14_forwarding_shapes() { H_C14_shapes() }

func init() {
	reg("H_C14_action_shapes", H_C14_action_shapes)
	reg("H_C14_forwarding_shapes", H_C14_forwarding_shapes)
	reg("H_C14_packet_envelope", H_C14_packet_envelope)
	reg("H_C14_packet_fields", H_C14_packet_fields)
	reg("H_C14_memo_documents", H_C14_memo_documents)
}

var recipientStrings = []string{"", "noble1nope", "x"}

// anyShapeFeeAttributes: every pointer position nil or not, values arbitrary.
func anyShapeFeeAttributes() *actiontypes.FeeAttributes {
	fa := &actiontypes.FeeAttributes{}
	for i := verif.Choose("fee-entries", verif.Bound("feeEntries")+1); i > 0; i-- {
		// (a nil entry cannot be packed into an Any nor produced by the decoder: "fees_info":[null] panics inside jsonpb)
		fi := &actiontypes.FeeInfo{}
		switch k := verif.Choose("fee-recipient", 3); k {
		case 0:
			fi.Recipient = feeR1.String()
		case 1:
			fi.Recipient = core.ModuleAddress.String()
		default:
			fi.Recipient = recipientStrings[verif.Choose("bad-recipient", len(recipientStrings))]
		}
		switch verif.Choose("fee-type", 6) {
		case 0: // no fee type at all
		case 1:
			fi.FeeType = &actiontypes.FeeInfo_BasisPoints_{} // wrapper without inner message
		case 2:
			fi.FeeType = &actiontypes.FeeInfo_Amount_{}
		case 3:
			fi.FeeType = &actiontypes.FeeInfo_BasisPoints_{BasisPoints: &actiontypes.FeeInfo_BasisPoints{Value: verif.Uint32("bps")}}
		case 4:
			fi.FeeType = &actiontypes.FeeInfo_Amount_{Amount: &actiontypes.FeeInfo_Amount{Value: verif.BigInt("fixed").String()}}
		case 5:
			fi.FeeType = &actiontypes.FeeInfo_Amount_{Amount: &actiontypes.FeeInfo_Amount{Value: []string{"", "abc", "1e3", "0x", "115792089237316195423570985008687907853269984665640564039457584007913129639936"}[verif.Choose("nan", 5)]}}
		}
		fa.FeesInfo = append(fa.FeesInfo, fi)
	}
	return fa
}

// anyShapePayload: what the decoder can leave behind (and a bit more): nil payload / forwarding / attributes / actions,
// identifiers any int32, byte fields of any length, integers and coins of any value (nil integers excluded: the Any round
// trip always yields non-nil integers).
func anyShapePayload() *core.Payload {
	if verif.Bool("nil-payload") {
		return nil
	}
	p := &core.Payload{}
	if verif.Bound("actionShapes") == 0 {
		// fixed: one valid fee action (the forwarding shapes are what varies)
		if verif.Bool("with-fee-action") {
			p.PreActions = append(p.PreActions, feeAction(100))
		}
	}
	for i := verif.Choose("actions", verif.Bound("actionShapes")*verif.Bound("actions")+1); i > 0; i-- {
		if verif.Bool("nil-action") {
			p.PreActions = append(p.PreActions, nil)
			continue
		}
		a := &core.Action{Id: core.ActionID(verif.Int32("action-id"))}
		switch verif.Choose("action-attributes", 3) {
		case 0: // none
		case 1:
			must(a.SetAttributes(anyShapeFeeAttributes()))
		case 2:
			must(a.SetAttributes(&fwdtypes.InternalAttributes{Recipient: user1.String()})) // not an action attribute type
		}
		p.PreActions = append(p.PreActions, a)
	}
	if verif.Bound("fwdShapes") == 0 {
		// fixed: a valid internal forwarding (the action shapes are what varies)
		f, err := fwdtypes.NewInternalForwarding(user1.String())
		must(err)
		p.Forwarding = f
		return p
	}
	if verif.Bool("nil-forwarding") {
		return p
	}
	f := &core.Forwarding{ProtocolId: core.ProtocolID(verif.Int32("protocol-id")), PassthroughPayload: make([]byte, verif.Choose("passthrough", 2))}
	n := verif.Bound("bytes")
	switch verif.Choose("forwarding-attributes", 4) {
	case 0: // none
	case 1:
		must(f.SetAttributes(&fwdtypes.CCTPAttributes{DestinationDomain: uint32(verif.Choose("domain", 3) * 2), MintRecipient: verif.Bytes("recipient", verif.Bound("bytes")), DestinationCaller: verif.Bytes("caller", verif.Bound("bytes"))})) // domains 0, 2, 4 (4 = Noble, refused); all domains: C05 / C20
	case 2:
		// byte fields: arbitrary bytes of arbitrary length (thorough) or zero bytes of arbitrary length (quick)
		byteField := func(label string) []byte {
			if verif.Bound("symBytes") > 0 {
				return verif.Bytes(label, n)
			}
			return verif.ZeroBytes(label, n) // arbitrary LENGTH, zero content (only lengths matter for the conversions)
		}
		must(f.SetAttributes(&fwdtypes.HypAttributes{
			TokenId: byteField("token"), DestinationDomain: uint32(verif.Choose("domain", 3)), Recipient: byteField("recipient"),
			CustomHookId: [][]byte{nil, make([]byte, 32), {1}}[verif.Choose("hook", 3)], CustomHookMetadata: []string{"", "0x00", "zz", "0", "0x", "0x0"}[verif.Choose("metadata", verif.Bound("metaKinds"))],
			GasLimit: verif.BigInt("gas"), MaxFee: sdk.Coin{Denom: []string{"uusdc", "", "!!"}[verif.Choose("maxfee-denom", 3)], Amount: verif.BigInt("maxfee")},
		}))
	case 3:
		must(f.SetAttributes(&fwdtypes.InternalAttributes{Recipient: append([]string{user1.String(), core.ModuleAddress.String()}, recipientStrings...)[verif.Choose("internal-recipient", 5)]}))
	}
	p.Forwarding = f
	return p
}

// H_C14_shapes: arbitrary decoded payload shapes through the stages that follow decoding, exactly as the receive path calls
// them: Payload.Validate (IBCParser.ParsePayload), the transfer hook, and payload processing. The only obligation is that
// nothing panics; a payload that fails validation must not be processed.
func H_C14_shapes() {
	w := NewWorld(false)
	p := anyShapePayload()
	A := verif.BigInt("A")
	verif.Assume(A.IsPositive()) // (amounts that are not positive integers: H_C14_packet)
	ta, err := core.NewTransferAttributes(core.PROTOCOL_IBC, "channel-0", nativeDenom, A)
	must(err)
	if verif.Bool("straight-to-dispatcher") {
		w.L.Set(core.ModuleAddress, nativeDenom, A)
		// the dispatcher is an exported entry point of its own and validates what it gets
		if w.K.Dispatcher().DispatchPayload(w.Ctx, ta, p) != nil {
			verif.Cover("dispatcher-refused")
		} else {
			verif.Cover("dispatched")
		}
		return
	}
	if p.Validate() != nil {
		verif.Cover("malformed-payload-refused")
		return
	}
	verif.Cover("payload-validated")
	pkt := &types.OrbiterPacket{TransferAttributes: ta, Payload: p}
	if w.K.Adapter().BeforeTransferHook(w.Ctx, pkt) != nil {
		verif.Cover("hook-refused")
		return
	}
	w.L.Set(core.ModuleAddress, nativeDenom, A) // the ICS-20 credit happens between the hook and the processing
	if w.K.Adapter().ProcessPayload(w.Ctx, pkt) != nil {
		verif.Cover("processing-refused")
		return
	}
	verif.Cover("processed")
}

// H_C14_packet: arbitrary packet envelope (channel and port identifiers as arbitrary strings), arbitrary ICS-20 fields incl.
// pathological denominations, amounts that are not positive integers, blank parties — through the real OnRecvPacket.
// Two bounds profiles: "envelope" varies identifiers / parties / data kind with plain fields, "fields" varies denomination,
// amount and memo for packets addressed to the orbiter account.
func H_C14_packet() {
	w := NewWorld(false)
	w.L.Set(escrow, nativeDenom, math.NewInt(1000000))
	fields, envelope := verif.Bound("fields") > 0, verif.Bound("envelope") > 0
	d := transfertypes.FungibleTokenPacketData{Denom: voucherOnSender, Sender: "sender", Receiver: core.ModuleAddress.String(), Amount: "1000"}
	f, err := fwdtypes.NewInternalForwarding(user1.String())
	must(err)
	pl, err := core.NewPayload(f)
	must(err)
	d.Memo = verif.EncodeMemo(&core.PayloadWrapper{Orbiter: pl}, 0)
	if fields {
		k := 1 + verif.Choose("segments", verif.Bound("segments"))
		denom := ""
		for i := 0; i < k; i++ {
			if i > 0 {
				denom += "/"
			}
			denom += segment()
		}
		d.Denom = denom
		if verif.Bool("upper-case-receiver") {
			d.Receiver = orbiterUpper()
		}
		switch verif.Choose("amount", 3) {
		case 0:
			d.Amount = verif.BigInt("A").String()
		case 1:
			d.Amount = []string{"", "abc", "1.5", "0x10", "1_0"}[verif.Choose("nan", 5)]
		case 2:
			d.Amount = "115792089237316195423570985008687907853269984665640564039457584007913129639936" // 2^256
		}
		switch verif.Choose("memo", 4) {
		case 1:
			d.Memo = verif.EncodeMemo(&core.PayloadWrapper{Orbiter: pl}, 1)
		case 2:
			d.Memo = `{"orbiter":null}`
		case 3:
			d.Memo = "{"
		}
	}
	pkt := channeltypes.Packet{Sequence: 1, SourcePort: "transfer", SourceChannel: "channel-7", DestinationPort: "transfer", DestinationChannel: "channel-0"}
	notICS20 := false
	if envelope {
		d.Sender = []string{"sender", "", " "}[verif.Choose("sender", 3)]
		d.Receiver = []string{core.ModuleAddress.String(), orbiterUpper(), user2.String(), ""}[verif.Choose("receiver", 4)]
		pkt.SourcePort = []string{"transfer", "", "p"}[verif.Choose("source-port", 3)]
		pkt.SourceChannel = []string{"channel-7", "", "c"}[verif.Choose("source-channel", 3)]
		pkt.DestinationChannel = verif.String("destination-channel", verif.Bound("chanlen"))
		notICS20 = verif.Bool("not-ics20")
	}
	if notICS20 {
		pkt.Data = verif.Garbage()
	} else {
		pkt.Data = verif.EncodeICS20(d)
	}
	ack := w.MW.OnRecvPacket(w.Ctx, pkt, relayerAddr)
	if ack.Success() {
		verif.Cover("success-ack")
	} else {
		verif.Cover("error-ack")
	}
}

func H_C14_packet_envelope() { H_C14_packet() }
func H_C14_packet_fields()   { H_C14_packet() }

// H_C14_memo_documents: memos that START with a complete, valid orbiter payload but are not one JSON document (bytes after
// the closing brace), and the same payload in every wire form of the packet data: addressed to the orbiter account, the
// malformed ones are refused with an error acknowledgement, the well-formed ones are executed; no panic either way.
func H_C14_memo_documents() {
	w := NewWorld(false)
	A := math.NewInt(1000)
	w.L.Set(escrow, nativeDenom, math.NewInt(5000))
	f, err := fwdtypes.NewInternalForwarding(user1.String())
	must(err)
	var acts []*core.Action
	if verif.Bool("with-fee") {
		acts = append(acts, feeAction(100))
	}
	pl, err := core.NewPayload(f, acts...)
	must(err)
	tail := verif.Choose("bytes-after-the-document", 5)
	extra := 0
	if tail == 0 {
		extra = verif.Choose("extra-root-keys", 2)
	}
	d := transfertypes.FungibleTokenPacketData{Denom: voucherOnSender, Amount: A.String(), Sender: "sender", Receiver: core.ModuleAddress.String(),
		Memo: verif.EncodeMemoTail(&core.PayloadWrapper{Orbiter: pl}, extra, tail)}
	ack := w.MW.OnRecvPacket(w.Ctx, packetOf(verif.EncodeICS20Wire(d, verif.Choose("wire-form", 3))), relayerAddr)
	oneDocument := (tail == 0 || tail == 4) && extra == 0
	if ack.Success() {
		verif.Cover("success-ack")
		verif.Assert(oneDocument, "malformed-memo-is-refused")
		verif.Assert(w.L.Bal(core.ModuleAddress, nativeDenom).IsZero(), "nothing-left-on-orbiter")
	} else {
		verif.Cover("error-ack")
		verif.Assert(len(w.Int.reqs) == 0, "refused-packet-is-not-forwarded")
	}
}
