package h

// The wired module: the real keeper.NewKeeper, the real controllers and the real IBC middleware on top of
// the environment models. The wiring mirrors depinject.go:InjectComponents (which itself is outside every claim).

import (
	"context"
	"errors"
	"strings"

	warptypes "github.com/bcp-innovations/hyperlane-cosmos/x/warp/types"
	cctptypes "github.com/circlefin/noble-cctp/x/cctp/types"

	"cosmossdk.io/math"
	"github.com/cosmos/cosmos-sdk/codec"
	sdk "github.com/cosmos/cosmos-sdk/types"
	banktypes "github.com/cosmos/cosmos-sdk/x/bank/types"
	gogoproto "github.com/cosmos/gogoproto/proto"
	transfertypes "github.com/cosmos/ibc-go/v8/modules/apps/transfer/types"
	channeltypes "github.com/cosmos/ibc-go/v8/modules/core/04-channel/types"
	capabilitytypes "github.com/cosmos/ibc-go/modules/capability/types"
	clienttypes "github.com/cosmos/ibc-go/v8/modules/core/02-client/types"
	porttypes "github.com/cosmos/ibc-go/v8/modules/core/05-port/types"
	ibcexported "github.com/cosmos/ibc-go/v8/modules/core/exported"

	actionctrl "github.com/noble-assets/orbiter/v2/controller/action"
	adapterctrl "github.com/noble-assets/orbiter/v2/controller/adapter"
	fwdctrl "github.com/noble-assets/orbiter/v2/controller/forwarding"
	"github.com/noble-assets/orbiter/v2/entrypoint"
	"github.com/noble-assets/orbiter/v2/keeper"
	orbitertypes "github.com/noble-assets/orbiter/v2/types"
	actiontypes "github.com/noble-assets/orbiter/v2/types/controller/action"
	fwdtypes "github.com/noble-assets/orbiter/v2/types/controller/forwarding"
	"github.com/noble-assets/orbiter/v2/types/core"
	"github.com/noble-assets/orbiter/v2/zzverif/verif"
)

// ---- codec: the real proto codec natively; JSON decoding goes through verif.DecodeJSON (blob summary) ----

type hcodec struct{ codec.Codec }

func (hcodec) UnmarshalJSON(bz []byte, m gogoproto.Message) error { return verif.DecodeJSON(bz, m) }

func newCodec() codec.Codec { return hcodec{verif.RealCodec()} }

type addrCodec struct{}

func (addrCodec) StringToBytes(s string) ([]byte, error) { return sdk.AccAddressFromBech32(s) }
func (addrCodec) BytesToString(b []byte) (string, error) { return sdk.AccAddress(b).String(), nil }

var authorityAddr = sdk.AccAddress([]byte{7, 7, 7, 7, 7, 7, 7, 7, 7, 7, 7, 7, 7, 7, 7, 7, 7, 7, 7, 7})

// ---- CCTP message server model (noble-cctp msg_server_deposit_for_burn.go) ---------------------------

type cctpReq struct {
	withCaller bool
	from       string
	amount     math.Int
	domain     uint32
	recipient  []byte
	burnToken  string
	caller     []byte
}

type cctpModel struct {
	l        *Ledger
	faults   bool
	panics   bool // the message server may panic instead of returning an error
	failed   int
	reqs     []cctpReq
	replaces []*cctptypes.MsgReplaceDepositForBurn
	burned   math.Int
}

var cctpModuleAddr = sdk.AccAddress([]byte{10, 10, 10, 10, 10, 10, 10, 10, 10, 10, 10, 10, 10, 10, 10, 10, 10, 10, 10, 10})

func (c *cctpModel) deposit(ctx context.Context, r cctpReq) error {
	if c.panics && verif.Bool("cctp-panics") {
		c.failed++
		panic(verif.Injected{What: "CCTP message server panicked"})
	}
	if c.faults && verif.Bool("fault-cctp") {
		c.failed++
		return errors.New("injected: CCTP refused (burn limit, paused, unknown domain, ...)")
	}
	from, err := sdk.AccAddressFromBech32(r.from)
	if err != nil {
		return err
	}
	if !r.amount.IsPositive() {
		return errors.New("amount must be positive")
	}
	if len(r.recipient) == 0 {
		return errors.New("mint recipient must be nonzero")
	}
	if !strings.EqualFold("uusdc", r.burnToken) {
		return errors.New("burning denom is not supported")
	}
	coin := sdk.NewCoin(r.burnToken, r.amount)
	if err := c.l.moveIn(ctx, from, cctpModuleAddr, sdk.NewCoins(coin)); err != nil {
		return err
	}
	// burn: the module's coins and the supply disappear
	c.l.setIn(ctx, cctpModuleAddr, r.burnToken, c.l.balIn(ctx, cctpModuleAddr, r.burnToken).Sub(r.amount))
	if c.burned.IsNil() {
		c.burned = math.ZeroInt()
	}
	c.burned = c.burned.Add(r.amount)
	// ... and CCTP burns before it sends the message
	if c.faults && verif.Bool("fault-cctp-after-burn") {
		c.failed++
		return errors.New("injected: sending the message failed (after the burn)")
	}
	c.reqs = append(c.reqs, r)
	return nil
}

func (c *cctpModel) DepositForBurn(ctx context.Context, m *cctptypes.MsgDepositForBurn) (*cctptypes.MsgDepositForBurnResponse, error) {
	err := c.deposit(ctx, cctpReq{false, m.From, m.Amount, m.DestinationDomain, m.MintRecipient, m.BurnToken, nil})
	if err != nil {
		return nil, err
	}
	return &cctptypes.MsgDepositForBurnResponse{}, nil
}

func (c *cctpModel) DepositForBurnWithCaller(ctx context.Context, m *cctptypes.MsgDepositForBurnWithCaller) (*cctptypes.MsgDepositForBurnWithCallerResponse, error) {
	err := c.deposit(ctx, cctpReq{true, m.From, m.Amount, m.DestinationDomain, m.MintRecipient, m.BurnToken, m.DestinationCaller})
	if err != nil {
		return nil, err
	}
	return &cctptypes.MsgDepositForBurnWithCallerResponse{}, nil
}

func (c *cctpModel) ReplaceDepositForBurn(ctx context.Context, m *cctptypes.MsgReplaceDepositForBurn) (*cctptypes.MsgReplaceDepositForBurnResponse, error) {
	if c.faults && verif.Bool("fault-cctp-replace") {
		c.failed++
		return nil, errors.New("injected: replace refused")
	}
	c.replaces = append(c.replaces, m)
	return &cctptypes.MsgReplaceDepositForBurnResponse{}, nil
}

// ---- Hyperlane handler model (hyperlane-cosmos x/warp msg_server.go, logic_collateral.go) -------------

type hypModel struct {
	l           *Ledger
	faults      bool
	panics      bool
	failed      int
	tokenKnown  bool   // is the token id registered
	originDenom string // its collateral denom
	tokenType   warptypes.HypTokenType
	queries     []string
	reqs        []*warptypes.MsgRemoteTransfer
}

var warpModuleAddr = sdk.AccAddress([]byte{11, 11, 11, 11, 11, 11, 11, 11, 11, 11, 11, 11, 11, 11, 11, 11, 11, 11, 11, 11})

func (h *hypModel) Token(_ context.Context, req *warptypes.QueryTokenRequest) (*warptypes.QueryTokenResponse, error) {
	if h.faults && verif.Bool("fault-hyp-token-query") {
		h.failed++
		return nil, errors.New("injected: token query failed")
	}
	h.queries = append(h.queries, req.Id)
	if !h.tokenKnown {
		return nil, errors.New("token not found")
	}
	return &warptypes.QueryTokenResponse{Token: &warptypes.WrappedHypToken{OriginDenom: h.originDenom, TokenType: h.tokenType}}, nil
}

func (h *hypModel) RemoteTransfer(ctx context.Context, m *warptypes.MsgRemoteTransfer) (*warptypes.MsgRemoteTransferResponse, error) {
	if h.panics && verif.Bool("warp-panics") {
		h.failed++
		panic(verif.Injected{What: "warp message server panicked"})
	}
	if h.faults && verif.Bool("fault-hyp-transfer") {
		h.failed++
		return nil, errors.New("injected: remote transfer refused (no enrolled router, mailbox, ...)")
	}
	if !h.tokenKnown {
		return nil, errors.New("failed to find token")
	}
	sender, err := sdk.AccAddressFromBech32(m.Sender)
	if err != nil {
		return nil, err
	}
	// RemoteTransferCollateral: sdk.NewCoin panics on a negative amount, gasLimit.IsZero() on a nil Int,
	// sdk.NewCoins(maxFee) on an invalid coin
	if err := h.l.moveIn(ctx, sender, warpModuleAddr, sdk.NewCoins(sdk.NewCoin(h.originDenom, m.Amount))); err != nil {
		return nil, err
	}
	_ = m.GasLimit.IsZero()
	_ = sdk.NewCoins(m.MaxFee)
	// the real message server escrows first and looks the router up afterwards: it can fail AFTER the funds have moved
	// (the failed call is undone only because the whole receive is reverted on the error acknowledgement, E1)
	if h.faults && verif.Bool("fault-hyp-transfer-after-escrow") {
		h.failed++
		return nil, errors.New("injected: no enrolled router for the destination domain (after the collateral was taken)")
	}
	h.reqs = append(h.reqs, m)
	return &warptypes.MsgRemoteTransferResponse{}, nil
}

// ---- internal handler model (bank MsgSend) --------------------------------------------------------------

type internalModel struct {
	l       *Ledger
	faults  bool
	panics  bool
	failed  int
	blocked []sdk.AccAddress // blocked module accounts (simapp/app.yaml: not the orbiter account itself)
	reqs    []*banktypes.MsgSend
}

func (h *internalModel) Send(ctx context.Context, msg *banktypes.MsgSend) (*banktypes.MsgSendResponse, error) {
	if h.panics && verif.Bool("bank-msgsend-panics") {
		h.failed++
		panic(verif.Injected{What: "bank message server panicked"})
	}
	if h.faults && verif.Bool("fault-bank-msgsend") {
		h.failed++
		return nil, errors.New("injected: bank send refused (send disabled, restriction, ...)")
	}
	from, err := sdk.AccAddressFromBech32(msg.FromAddress)
	if err != nil {
		return nil, err
	}
	to, err := sdk.AccAddressFromBech32(msg.ToAddress)
	if err != nil {
		return nil, err
	}
	for _, b := range h.blocked {
		if b.Equals(to) {
			return nil, errors.New("recipient is not allowed to receive funds")
		}
	}
	if err := h.l.moveIn(ctx, from, to, msg.Amount); err != nil {
		return nil, err
	}
	h.reqs = append(h.reqs, msg)
	return &banktypes.MsgSendResponse{}, nil
}

// ---- ICS-20 application model (ibc-go v8.6.1 transfer/ibc_module.go:178, keeper/relay.go:171) ----------

type ics20 struct {
	porttypes.IBCModule
	l         *Ledger
	faults    bool
	panics    bool // the application may abort (out of gas while it handles the packet)
	panicked  bool
	failed    int
	blocked   []sdk.AccAddress
	calls     int
	lastAck   ibcexported.Acknowledgement
	credited  sdk.Coin // what the application credited on its last successful call
	creditTo  sdk.AccAddress
	sawPacket channeltypes.Packet
	sawRelayr sdk.AccAddress
	cbs       []cbRec
	cbErr     error
}

var transferModuleAddr = sdk.AccAddress([]byte{12, 12, 12, 12, 12, 12, 12, 12, 12, 12, 12, 12, 12, 12, 12, 12, 12, 12, 12, 12})

func (a *ics20) recv(ctx sdk.Context, p channeltypes.Packet) error {
	var d transfertypes.FungibleTokenPacketData
	if err := transfertypes.ModuleCdc.UnmarshalJSON(p.GetData(), &d); err != nil {
		return errors.New("cannot unmarshal ICS-20 transfer packet data")
	}
	if a.faults && verif.Bool("fault-ics20") {
		a.failed++
		return errors.New("injected: ICS-20 refused (receive disabled, unescrow failed, ...)")
	}
	// ValidateBasic
	amt, ok := math.NewIntFromString(d.Amount)
	if !ok {
		return errors.New("unable to parse transfer amount")
	}
	if !amt.IsPositive() {
		return errors.New("amount must be strictly positive")
	}
	if strings.TrimSpace(d.Sender) == "" || strings.TrimSpace(d.Receiver) == "" {
		return errors.New("blank address")
	}
	// ValidatePrefixedDenom: the base denomination must not be blank (identifier syntax of the trace is not modelled)
	if strings.TrimSpace(transfertypes.ParseDenomTrace(d.Denom).BaseDenom) == "" {
		return errors.New("base denomination cannot be blank")
	}
	receiver, err := sdk.AccAddressFromBech32(d.Receiver)
	if err != nil {
		return err
	}
	if transfertypes.ReceiverChainIsSource(p.GetSourcePort(), p.GetSourceChannel(), d.Denom) {
		prefix := transfertypes.GetDenomPrefix(p.GetSourcePort(), p.GetSourceChannel())
		unprefixed := d.Denom[len(prefix):]
		if unprefixed == "" {
			return errors.New("base denomination cannot be blank")
		}
		denom := unprefixed
		tr := transfertypes.ParseDenomTrace(unprefixed)
		if !tr.IsNativeDenom() {
			denom = "ibc/HASH" // tr.IBCDenom(): a hash, never equal to a native denom
		}
		token := sdk.NewCoin(denom, amt)
		for _, b := range a.blocked {
			if b.Equals(receiver) {
				return errors.New("receiver is not allowed to receive funds")
			}
		}
		if err := a.l.moveIn(ctx, escrow, receiver, sdk.NewCoins(token)); err != nil {
			return err
		}
		a.credited, a.creditTo = token, receiver
		return nil
	}
	// sender chain is the source: mint a voucher
	voucher := sdk.Coin{Denom: "ibc/VOUCHER", Amount: amt}
	a.l.setIn(ctx, transferModuleAddr, voucher.Denom, a.l.balIn(ctx, transferModuleAddr, voucher.Denom).Add(amt))
	if err := a.l.moveIn(ctx, transferModuleAddr, receiver, sdk.Coins{voucher}); err != nil {
		return err
	}
	a.credited, a.creditTo = voucher, receiver
	return nil
}

func (a *ics20) OnRecvPacket(ctx sdk.Context, p channeltypes.Packet, relayer sdk.AccAddress) ibcexported.Acknowledgement {
	a.calls++
	a.sawPacket, a.sawRelayr = p, relayer
	if a.panics && verif.Bool("application-aborts") {
		a.panicked = true
		panic(verif.Injected{What: "the wrapped application ran out of gas"})
	}
	var ack ibcexported.Acknowledgement
	if err := a.recv(ctx, p); err != nil {
		ack = channeltypes.NewErrorAcknowledgement(err)
	} else {
		ack = channeltypes.NewResultAcknowledgement([]byte{1})
	}
	a.lastAck = ack
	return ack
}

type ics4 struct{ porttypes.ICS4Wrapper }

// ---- the world ------------------------------------------------------------------------------------------------

type World struct {
	Ctx  sdk.Context
	L    *Ledger
	Ev   *events
	K    *keeper.Keeper
	CCTP *cctpModel
	Hyp  *hypModel
	Int  *internalModel
	App  *ics20
	ICS4 *ics4rec
	MW   entrypoint.IBCMiddleware
	Fee  *actionctrl.FeeController
	swap *swapStub
}

// NewWorld wires the module. faults: every fallible environment call draws a failure bit.
func NewWorld(faults bool) *World { return newWorldWith(faults, false) }

// newWorldSwap registers the given controller under ACTION_SWAP (its ledger is set to the world's).
func newWorldSwap(sw *denomSwap) *World {
	w := newWorldCustom(false, sw)
	sw.l = w.L
	return w
}

// newWorldWith: withSwap additionally registers a recording stub controller under ACTION_SWAP.
func newWorldWith(faults, withSwap bool) *World {
	if withSwap {
		st := &swapStub{}
		w := newWorldCustom(faults, st)
		w.swap = st
		return w
	}
	return newWorldCustom(faults, nil)
}

func newWorldCustom(faults bool, extra orbitertypes.ActionController) *World {
	w := &World{}
	ctx, svc := verif.NewEnv()
	w.Ctx = verif.SDKContext(ctx)
	w.L = &Ledger{faults: faults, root: w.Ctx}
	w.Ev = &events{faults: faults}
	cdc := newCodec()
	w.K = keeper.NewKeeper(cdc, addrCodec{}, nopLogger{}, w.Ev, svc, authorityAddr.String(), w.L)
	w.CCTP = &cctpModel{l: w.L, faults: faults}
	w.Hyp = &hypModel{l: w.L, faults: faults, tokenKnown: true, originDenom: "uusdc", tokenType: warptypes.HYP_TOKEN_TYPE_COLLATERAL}
	dust := modAddr(core.DustCollectorName)
	w.Int = &internalModel{l: w.L, faults: faults, blocked: []sdk.AccAddress{dust}}
	w.App = &ics20{l: w.L, faults: faults, blocked: []sdk.AccAddress{dust}}

	cc, err := fwdctrl.NewCCTPController(nopLogger{}, w.CCTP)
	must(err)
	hc, err := fwdctrl.NewHyperlaneController(nopLogger{}, w.Hyp)
	must(err)
	ic, err := fwdctrl.NewInternalController(nopLogger{}, w.Int)
	must(err)
	must(w.K.SetForwardingControllers(cc, hc, ic))
	w.Fee, err = actionctrl.NewFeeController(nopLogger{}, w.Ev, w.L)
	must(err)
	if extra != nil {
		must(w.K.SetActionControllers(w.Fee, extra))
	} else {
		must(w.K.SetActionControllers(w.Fee))
	}
	ia, err := adapterctrl.NewIBCAdapter(cdc, nopLogger{})
	must(err)
	must(w.K.SetAdapterControllers(ia))
	w.ICS4 = &ics4rec{}
	w.MW = entrypoint.NewIBCMiddleware(w.App, w.ICS4, w.K.Adapter())
	return w
}

func must(err error) {
	if err != nil {
		panic("harness wiring failed: " + err.Error())
	}
}

// ---- packets ------------------------------------------------------------------------------------------------------

var relayerAddr = sdk.AccAddress([]byte{13, 13, 13, 13, 13, 13, 13, 13, 13, 13, 13, 13, 13, 13, 13, 13, 13, 13, 13, 13})

const (
	srcPort, srcChannel = "transfer", "channel-7" // on the counterparty
	dstPort, dstChannel = "transfer", "channel-0" // on Noble
	nativeDenom         = "uusdc"
	voucherOnSender     = "transfer/channel-7/uusdc" // how the counterparty names uusdc that left over this channel
)

func packetOf(data []byte) channeltypes.Packet {
	return channeltypes.Packet{
		Sequence: 1, SourcePort: srcPort, SourceChannel: srcChannel,
		DestinationPort: dstPort, DestinationChannel: dstChannel, Data: data,
	}
}

// Recv delivers ICS-20 packet data through the real middleware.
func (w *World) Recv(d transfertypes.FungibleTokenPacketData) ibcexported.Acknowledgement {
	return w.MW.OnRecvPacket(w.Ctx, packetOf(verif.EncodeICS20(d)), relayerAddr)
}

// orbiterData: an ICS-20 transfer of amount uusdc-returning-home to the orbiter account with the given payload.
func orbiterData(amount math.Int, p *core.Payload) transfertypes.FungibleTokenPacketData {
	return transfertypes.FungibleTokenPacketData{
		Denom:    voucherOnSender,
		Amount:   amount.String(),
		Sender:   "sender-on-counterparty",
		Receiver: core.ModuleAddress.String(),
		Memo:     verif.EncodeMemo(&core.PayloadWrapper{Orbiter: p}, 0),
	}
}

// ---- pass-through callbacks of the wrapped application and of the ICS-4 wrapper (recorded; results are drawn) ------------

type cbRec struct {
	method   string
	packet   channeltypes.Packet
	ack      []byte
	relayer  sdk.AccAddress
	port, ch string
	data     []byte
	ts       uint64
}

func (a *ics20) OnAcknowledgementPacket(_ sdk.Context, p channeltypes.Packet, ack []byte, relayer sdk.AccAddress) error {
	a.cbs = append(a.cbs, cbRec{method: "OnAcknowledgementPacket", packet: p, ack: ack, relayer: relayer})
	if verif.Bool("app-callback-fails") {
		a.cbErr = errors.New("application refused")
		return a.cbErr
	}
	return nil
}

func (a *ics20) OnTimeoutPacket(_ sdk.Context, p channeltypes.Packet, relayer sdk.AccAddress) error {
	a.cbs = append(a.cbs, cbRec{method: "OnTimeoutPacket", packet: p, relayer: relayer})
	if verif.Bool("app-callback-fails") {
		a.cbErr = errors.New("application refused")
		return a.cbErr
	}
	return nil
}

func (a *ics20) OnChanCloseInit(_ sdk.Context, port, ch string) error {
	a.cbs = append(a.cbs, cbRec{method: "OnChanCloseInit", port: port, ch: ch})
	if verif.Bool("app-callback-fails") {
		a.cbErr = errors.New("application refused")
		return a.cbErr
	}
	return nil
}

func (a *ics20) OnChanOpenConfirm(_ sdk.Context, port, ch string) error {
	a.cbs = append(a.cbs, cbRec{method: "OnChanOpenConfirm", port: port, ch: ch})
	return nil
}

type ics4rec struct {
	porttypes.ICS4Wrapper
	cbs    []cbRec
	seq    uint64
	sndErr error
}

func (i *ics4rec) SendPacket(_ sdk.Context, _ *capabilitytypes.Capability, port, ch string, _ clienttypes.Height, ts uint64, data []byte) (uint64, error) {
	i.cbs = append(i.cbs, cbRec{method: "SendPacket", port: port, ch: ch, data: data, ts: ts})
	if verif.Bool("send-fails") {
		i.sndErr = errors.New("channel closed")
		return 0, i.sndErr
	}
	i.seq = verif.Uint64("sequence")
	return i.seq, nil
}

func (i *ics4rec) GetAppVersion(_ sdk.Context, port, ch string) (string, bool) {
	i.cbs = append(i.cbs, cbRec{method: "GetAppVersion", port: port, ch: ch})
	return "ics20-1", true
}


// Earlier runs, before the packet under study, a complete and successful orbiter transfer with every optional element
// present (fee action, destination caller / custom hook and metadata / another recipient) over route k-1, and then
// forgets what the recorders saw. The keeper, the controllers, the parsers and whatever they keep in memory stay: the
// packet under study must be handled as a function of itself and of the STORED state only.
func (w *World) Earlier(k int) {
	if k == 0 {
		return
	}
	fl, fe, fc, fh, fi, fa := w.L.faults, w.Ev.faults, w.CCTP.faults, w.Hyp.faults, w.Int.faults, w.App.faults
	w.L.faults, w.Ev.faults, w.CCTP.faults, w.Hyp.faults, w.Int.faults, w.App.faults = false, false, false, false, false, false
	b32 := func(x byte) []byte {
		b := make([]byte, 32)
		for i := range b {
			b[i] = x
		}
		return b
	}
	var f *core.Forwarding
	var err error
	switch k {
	case 1:
		f, err = fwdtypes.NewCCTPForwarding(5, b32(0xa1), b32(0xa2), nil)
	case 2:
		f, err = fwdtypes.NewHyperlaneForwarding(b32(0xb1), 4, b32(0xb2), b32(0xee), "0x00ff", math.NewInt(77), sdk.NewInt64Coin("uusdc", 55), nil)
	default:
		f, err = fwdtypes.NewInternalForwarding(user2.String())
	}
	must(err)
	bp, err := actiontypes.NewFeeBasisPoints(250)
	must(err)
	fi1, err := actiontypes.NewFeeInfo(feeR2.String(), bp)
	must(err)
	am, err := actiontypes.NewFeeAmount("3")
	must(err)
	fi2, err := actiontypes.NewFeeInfo(feeR1.String(), am)
	must(err)
	act, err := actiontypes.NewFeeAction(fi1, fi2)
	must(err)
	p, err := core.NewPayload(f, act)
	must(err)
	w.L.Set(escrow, nativeDenom, math.NewInt(4000))
	ack := w.Recv(orbiterData(math.NewInt(4000), p))
	verif.Assert(ack.Success(), "earlier-transfer-executed")
	verif.Cover("after-an-earlier-transfer")
	// forget the recordings, keep the system
	w.CCTP.reqs, w.Hyp.reqs, w.Hyp.queries, w.Int.reqs = nil, nil, nil, nil
	w.Ev.list, w.L.sends, w.L.reads = nil, nil, 0
	w.App.calls = 0
	w.CCTP.burned = math.Int{}
	w.L.faults, w.Ev.faults, w.CCTP.faults, w.Hyp.faults, w.Int.faults, w.App.faults = fl, fe, fc, fh, fi, fa
}
