package h

import (
	"cosmossdk.io/math"
	sdk "github.com/cosmos/cosmos-sdk/types"

	actiontypes "github.com/noble-assets/orbiter/v2/types/controller/action"
	fwdtypes "github.com/noble-assets/orbiter/v2/types/controller/forwarding"
	"github.com/noble-assets/orbiter/v2/types/core"
	"github.com/noble-assets/orbiter/v2/zzverif/verif"
)

func init() { reg("H_C06_order", H_C06_order) }

// H_C06_order: the real dispatcher / executor / forwarder with the real fee controller and a denomination-changing controller
// registered under ACTION_SWAP. Every list over {FEE, SWAP} of length 0..2 and every list that repeats an identifier.
func H_C06_order() {
	sw := &denomSwap{}
	w := newWorldSwap(sw)
	A := verif.BigInt("A")
	verif.Assume(A.IsPositive() && A.LT(math.NewIntWithDecimal(1, 60)))
	bps := verif.Uint32("bps")
	verif.Assume(bps >= 1 && bps <= 10000)
	sw.newDenom = "uother"
	sw.amountFirst = verif.Bool("controller-sets-amount-before-denom")
	sw.newAmt = verif.BigInt("swapped-amount")
	verif.Assume(sw.newAmt.IsPositive() && sw.newAmt.LT(math.NewIntWithDecimal(1, 60)))

	ta, err := core.NewTransferAttributes(core.PROTOCOL_IBC, "channel-0", nativeDenom, A)
	must(err)
	w.L.Set(core.ModuleAddress, nativeDenom, A)
	// coins of the OTHER denomination that the orbiter account already holds (only the incoming denomination is swept):
	// a transfer that ends in that denomination is then refused by the forwarder's balance precondition — it must never
	// be executed with another amount than the one the last action left
	priorOther := math.ZeroInt()
	if verif.Bool("orbiter-already-holds-the-other-denomination") {
		priorOther = verif.BigInt("prior-other-denom")
		verif.Assume(priorOther.IsPositive() && priorOther.LT(math.NewIntWithDecimal(1, 60)))
		w.L.Set(core.ModuleAddress, "uother", priorOther)
	}
	swapAct := func() *core.Action {
		a, err := core.NewAction(core.ACTION_SWAP, &actiontypes.FeeAttributes{})
		must(err)
		return a
	}
	var acts []*core.Action
	order := verif.Choose("order", 9)
	switch order {
	case 0:
	case 1:
		acts = []*core.Action{feeAction(bps)}
	case 2:
		acts = []*core.Action{swapAct()}
	case 3:
		acts = []*core.Action{feeAction(bps), swapAct()}
	case 4:
		acts = []*core.Action{swapAct(), feeAction(bps)}
	case 5:
		acts = []*core.Action{feeAction(bps), feeAction(bps)}
	case 6:
		acts = []*core.Action{swapAct(), swapAct()}
	case 7:
		acts = []*core.Action{feeAction(bps), swapAct(), feeAction(bps)}
	case 8:
		acts = []*core.Action{swapAct(), feeAction(bps), swapAct()}
	}
	f, err := fwdtypes.NewInternalForwarding(user1.String())
	must(err)
	// the order the payload lists (kept apart from the payload's own slice)
	ids := make([]core.ActionID, 0, 4)
	for _, a := range acts {
		ids = append(ids, a.Id)
	}
	err = w.K.Dispatcher().DispatchPayload(w.Ctx, ta, &core.Payload{Forwarding: f, PreActions: acts})

	if order >= 5 {
		verif.Cover("repeated-identifier")
		verif.Assert(err != nil, "payload-repeating-an-action-identifier-is-refused")
		verif.Assert(len(w.Int.reqs) == 0, "payload-repeating-an-action-identifier-is-not-forwarded")
		// (whether the refusal happens before any controller runs is mechanism: under E1 the error undoes their effects)
		return
	}
	zA, zB := verif.ZOf(A), verif.ZU64(uint64(bps))
	// reference: the running coin through the stages
	cur := zA
	curDenom := nativeDenom
	refused := false
	var feePaid verif.Z
	feeDenom := ""
	var swapSaw verif.Z
	swapSawDenom := ""
	for _, id := range ids {
		if id == core.ACTION_FEE {
			fee := verif.ZFloorDiv(verif.ZMul(cur, zB), 10000)
			if !verif.ZLt(fee, cur) {
				refused = true
				break
			}
			feePaid, feeDenom = fee, curDenom
			cur = verif.ZSub(cur, fee)
		} else {
			swapSaw, swapSawDenom = cur, curDenom
			cur, curDenom = verif.ZOf(sw.newAmt), sw.newDenom
		}
	}
	if err != nil {
		verif.Cover("refused")
		verif.Assert(refused || (priorOther.IsPositive() && curDenom == "uother"), "valid-action-list-is-executed")
		return
	}
	verif.Cover("executed")
	verif.Assert(!refused, "fee-not-below-the-running-amount-is-refused")
	// each stage saw its predecessor's output
	if swapSawDenom != "" {
		verif.Assert(sw.ran == 1 && len(sw.saw) == 1, "swap-stage-ran-once")
		verif.Assert(sw.saw[0].Denom == swapSawDenom && verif.ZEq(verif.ZOf(sw.saw[0].Amount), swapSaw), "swap-stage-saw-the-coin-left-by-its-predecessor")
	} else {
		verif.Assert(sw.ran == 0, "swap-stage-did-not-run")
	}
	if feeDenom != "" {
		got := w.L.Bal(feeR1, feeDenom)
		verif.Assert(verif.ZEq(verif.ZOf(got), feePaid), "fee-computed-on-the-coin-left-by-its-predecessor")
		other := nativeDenom
		if feeDenom == nativeDenom {
			other = "uother"
		}
		verif.Assert(w.L.Bal(feeR1, other).IsZero(), "fee-paid-in-the-running-denomination")
	}
	// the forwarding step sent exactly what the last action left
	verif.Assert(len(w.Int.reqs) == 1, "one-forwarding-request")
	if len(w.Int.reqs) == 1 {
		c := w.Int.reqs[0].Amount
		verif.Assert(len(c) == 1 && c[0].Denom == curDenom && verif.ZEq(verif.ZOf(c[0].Amount), cur), "forwarding-sends-the-coin-left-by-the-last-action")
	}
	verif.Assert(ta.DestinationDenom() == curDenom && verif.ZEq(verif.ZOf(ta.DestinationAmount()), cur), "transfer-attributes-carry-the-final-coin")
	verif.Assert(ta.SourceDenom() == nativeDenom && ta.SourceAmount().Equal(A), "source-coin-never-changes")
	_ = sdk.Coin{}
}
