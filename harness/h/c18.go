package h

import (
	"errors"

	"cosmossdk.io/math"
	sdk "github.com/cosmos/cosmos-sdk/types"

	adaptercomp "github.com/noble-assets/orbiter/v2/keeper/component/adapter"
	adaptertypes "github.com/noble-assets/orbiter/v2/types/component/adapter"
	fwdtypes "github.com/noble-assets/orbiter/v2/types/controller/forwarding"
	"github.com/noble-assets/orbiter/v2/types/core"
	"github.com/noble-assets/orbiter/v2/zzverif/verif"
)

func init() {
	reg("H_C18_limit", H_C18_limit)
}

// H_C18_limit: parameter history (none / genesis / authority updates) then one orbiter packet with a passthrough of
// symbolic length through the real middleware.
func H_C18_limit() {
	w := NewWorld(false)
	current := uint32(0) // the limit in force: nothing stored means 0
	switch verif.Choose("genesis", 3) {
	case 0: // params never written
	case 1: // default genesis
		w.K.InitGenesis(w.Ctx, *defaultGenesis())
	case 2:
		g := defaultGenesis()
		current = verif.Uint32("genesis-limit")
		g.AdapterGenesis.Params.MaxPassthroughPayloadSize = current
		w.K.InitGenesis(w.Ctx, *g)
	}
	ms := adaptercomp.NewMsgServer(w.K.Adapter(), w.K)
	n := verif.Choose("updates", verif.Bound("updates")+1)
	for i := 0; i < n; i++ {
		v := verif.Uint32("new-limit")
		signer := authorityAddr.String()
		byAuthority := verif.Bool("by-authority")
		if !byAuthority {
			signer = user1.String()
		}
		// the message may be part of a transaction that fails afterwards (or of a simulation): its writes are discarded
		reverted := verif.Bool("transaction-reverted-afterwards")
		var err error
		_ = verif.Atomically(w.Ctx, func(ctx sdk.Context) error {
			_, err = ms.UpdateParams(ctx, &adaptertypes.MsgUpdateParams{Signer: signer, Params: adaptertypes.Params{MaxPassthroughPayloadSize: v}})
			// something later in the same transaction (a query, another packet) may read the limit before the outcome
			// of the transaction is known: it sees the transaction's own write
			if verif.Bool("limit-read-inside-the-transaction") {
				qs := adaptercomp.NewQueryServer(w.K.Adapter())
				if resp, qerr := qs.Params(ctx, &adaptertypes.QueryParamsRequest{}); qerr == nil {
					seen := current
					if err == nil {
						seen = v
					}
					verif.Assert(resp.Params.MaxPassthroughPayloadSize == seen, "read-inside-transaction-sees-its-own-write")
				}
			}
			if err == nil && reverted {
				return errors.New("a later message of the transaction failed")
			}
			return err
		})
		verif.Assert((err == nil) == byAuthority, "update-succeeds-iff-signed-by-authority")
		if err == nil && !reverted {
			current = v
		}
	}
	// the query reports the limit in force
	qs := adaptercomp.NewQueryServer(w.K.Adapter())
	resp, err := qs.Params(w.Ctx, &adaptertypes.QueryParamsRequest{})
	if err == nil {
		verif.Assert(resp.Params.MaxPassthroughPayloadSize == current, "query-reports-limit-in-force")
	} else {
		verif.Cover("params-unreadable")
		verif.Assert(current == 0, "params-unreadable-only-when-never-written")
	}

	// one transfer of A to user1 with a passthrough payload of arbitrary length
	pt := verif.ZeroBytes("passthrough", verif.Bound("maxlen"))
	// (the limit is about the packet, whatever route it names)
	var f *core.Forwarding
	route := verif.Choose("route", 3)
	switch route {
	case routeCCTP:
		f, err = fwdtypes.NewCCTPForwarding(5, []byte{1, 2, 3}, nil, pt)
	case routeHyp:
		f, err = fwdtypes.NewHyperlaneForwarding(make([]byte, 32), 5, make([]byte, 32), nil, "", math.ZeroInt(), sdk.Coin{Denom: "uusdc", Amount: math.ZeroInt()}, pt)
	default:
		var attr *fwdtypes.InternalAttributes
		attr, err = fwdtypes.NewInternalAttributes(user1.String())
		if err != nil {
			return
		}
		f, err = core.NewForwarding(core.PROTOCOL_INTERNAL, attr, pt)
	}
	if err != nil {
		return
	}
	p, err := core.NewPayload(f)
	if err != nil {
		return
	}
	A := math.NewInt(1000)
	w.L.Set(escrow, nativeDenom, math.NewInt(5000))
	if verif.Bool("coins-already-on-the-orbiter-account") {
		// (the hook that enforces the limit also sweeps such coins: neither outcome may hide the other's)
		w.L.Set(core.ModuleAddress, nativeDenom, math.NewInt(7))
	}
	ack := w.Recv(orbiterData(A, p))
	if uint64(len(pt)) > uint64(current) {
		verif.Cover("over-limit")
		verif.Assert(!ack.Success(), "over-limit-is-refused")
		// (whether the refusal comes before or after the ICS-20 credit is mechanism: under E1 the error ack undoes the credit)
		verif.Assert(len(w.Int.reqs)+len(w.CCTP.reqs)+len(w.Hyp.reqs) == 0, "over-limit-is-not-forwarded")
	} else {
		verif.Cover("within-limit")
		verif.Assert(ack.Success(), "within-limit-is-never-refused")
		verif.Assert(len(w.Int.reqs)+len(w.CCTP.reqs)+len(w.Hyp.reqs) == 1, "within-limit-transfer-forwarded")
	}
	if current == 0 && len(pt) > 0 {
		verif.Assert(!ack.Success(), "default-limit-accepts-only-empty-passthrough")
	}
}
