package h

import (
	sdk "github.com/cosmos/cosmos-sdk/types"
	"strings"

	"github.com/cosmos/cosmos-sdk/types/module"
	gogogrpc "github.com/cosmos/gogoproto/grpc"
	"google.golang.org/grpc"

	"github.com/noble-assets/orbiter/v2/keeper"
	adaptertypes "github.com/noble-assets/orbiter/v2/types/component/adapter"
	executortypes "github.com/noble-assets/orbiter/v2/types/component/executor"
	forwardertypes "github.com/noble-assets/orbiter/v2/types/component/forwarder"
	"github.com/noble-assets/orbiter/v2/zzverif/verif"
)

func init() {
	reg("H_C10_unauthorized", H_C10_unauthorized)
}

// recording configurator: keeps the servers the module registers (keeper/servers_registration.go)
type grpcRec struct {
	names []string
	impls []any
}

func (g *grpcRec) RegisterService(d *grpc.ServiceDesc, impl interface{}) {
	g.names = append(g.names, d.ServiceName)
	g.impls = append(g.impls, impl)
}

func (g *grpcRec) find(name string) any {
	for i, n := range g.names {
		if n == name {
			return g.impls[i]
		}
	}
	panic("harness: the module did not register " + name)
}

type cfgRec struct {
	module.Configurator
	msgs *grpcRec
}

func (c cfgRec) MsgServer() gogogrpc.Server { return c.msgs }

// H_C10_unauthorized: every Msg RPC the module registers, signed by anyone but the authority, with an arbitrary body, from a
// non-trivial state: must fail and leave state, events and bridges untouched.
func H_C10_unauthorized() {
	w := NewWorld(false)
	rec := &grpcRec{}
	keeper.RegisterMsgServers(cfgRec{msgs: rec}, w.K)
	verif.Assert(len(rec.names) == 3, "module-registers-three-msg-services")
	fs := rec.find("noble.orbiter.component.forwarder.v1.Msg").(forwardertypes.MsgServer)
	es := rec.find("noble.orbiter.component.executor.v1.Msg").(executortypes.MsgServer)
	as := rec.find("noble.orbiter.component.adapter.v1.Msg").(adaptertypes.MsgServer)

	// a non-trivial state so that unpause / replace have something to act on
	auth := authorityAddr.String()
	_, err := fs.PauseProtocol(w.Ctx, &forwardertypes.MsgPauseProtocol{Signer: auth, ProtocolId: "PROTOCOL_CCTP"})
	must(err)
	_, err = fs.PauseCrossChains(w.Ctx, &forwardertypes.MsgPauseCrossChains{Signer: auth, ProtocolId: "PROTOCOL_HYPERLANE", CounterpartyIds: []string{"7"}})
	must(err)
	_, err = es.PauseAction(w.Ctx, &executortypes.MsgPauseAction{Signer: auth, ActionId: "ACTION_FEE"})
	must(err)
	_, err = as.UpdateParams(w.Ctx, &adaptertypes.MsgUpdateParams{Signer: auth, Params: adaptertypes.Params{MaxPassthroughPayloadSize: 5}})
	must(err)
	verif.Cover("authority-succeeds-with-valid-content")

	// anyone else: any string that is not the authority's address (in either letter case)
	var signer string
	switch verif.Choose("signer-kind", 4) {
	case 0:
		signer = verif.String("signer", verif.Bound("signerlen"))
		verif.Assume(signer != auth && signer != strings.ToUpper(auth))
	case 1:
		// well-formed addresses of other lengths than the authority's 20 bytes (interchain accounts, group policies,
		// module-derived accounts have 32)
		signer = sdk.AccAddress(make([]byte, 32)).String()
	case 2:
		signer = sdk.AccAddress([]byte{7}).String()
	default:
		signer = user1.String()
	}
	d0 := verif.StateDigest(w.Ctx)
	ev0 := len(w.Ev.list)

	// arbitrary bodies: names from the valid ones (so that only the signer check can refuse) or arbitrary strings
	pname := protoNames[verif.Choose("protocol", len(protoNames))]
	aname := actionNames[verif.Choose("action", len(actionNames))]
	ids := make([]string, 0, 2)
	for i := verif.Choose("ids", 3); i > 0; i-- {
		ids = append(ids, verif.String("cp", 2))
	}
	switch verif.Choose("rpc", 8) {
	case 0:
		verif.Cover("rpc:forwarder.PauseProtocol")
		_, err = fs.PauseProtocol(w.Ctx, &forwardertypes.MsgPauseProtocol{Signer: signer, ProtocolId: pname})
	case 1:
		verif.Cover("rpc:forwarder.UnpauseProtocol")
		_, err = fs.UnpauseProtocol(w.Ctx, &forwardertypes.MsgUnpauseProtocol{Signer: signer, ProtocolId: pname})
	case 2:
		verif.Cover("rpc:forwarder.PauseCrossChains")
		_, err = fs.PauseCrossChains(w.Ctx, &forwardertypes.MsgPauseCrossChains{Signer: signer, ProtocolId: pname, CounterpartyIds: ids})
	case 3:
		verif.Cover("rpc:forwarder.UnpauseCrossChains")
		_, err = fs.UnpauseCrossChains(w.Ctx, &forwardertypes.MsgUnpauseCrossChains{Signer: signer, ProtocolId: pname, CounterpartyIds: ids})
	case 4:
		verif.Cover("rpc:forwarder.ReplaceDepositForBurn")
		_, err = fs.ReplaceDepositForBurn(w.Ctx, &forwardertypes.MsgReplaceDepositForBurn{
			Signer: signer, OriginalMessage: verif.Bytes("orig", 4), OriginalAttestation: verif.Bytes("att", 4),
			NewDestinationCaller: verif.Bytes("caller", 4), NewMintRecipient: verif.Bytes("rcpt", 4),
		})
	case 5:
		verif.Cover("rpc:executor.PauseAction")
		_, err = es.PauseAction(w.Ctx, &executortypes.MsgPauseAction{Signer: signer, ActionId: aname})
	case 6:
		verif.Cover("rpc:executor.UnpauseAction")
		_, err = es.UnpauseAction(w.Ctx, &executortypes.MsgUnpauseAction{Signer: signer, ActionId: aname})
	case 7:
		verif.Cover("rpc:adapter.UpdateParams")
		_, err = as.UpdateParams(w.Ctx, &adaptertypes.MsgUpdateParams{Signer: signer, Params: adaptertypes.Params{MaxPassthroughPayloadSize: verif.Uint32("limit")}})
	}
	verif.Assert(err != nil, "non-authority-signer-is-refused")
	verif.Assert(verif.StateDigest(w.Ctx) == d0, "refused-message-leaves-module-state-unchanged")
	_ = ev0 // (events are not module state: not asserted)
	verif.Assert(len(w.CCTP.replaces) == 0 && len(w.CCTP.reqs) == 0, "refused-message-reaches-no-bridge")
	verif.Assert(len(w.L.sends) == 0, "refused-message-moves-no-funds")
}
