package h

import (
	"cosmossdk.io/math"
	transfertypes "github.com/cosmos/ibc-go/v8/modules/apps/transfer/types"
	clienttypes "github.com/cosmos/ibc-go/v8/modules/core/02-client/types"
	channeltypes "github.com/cosmos/ibc-go/v8/modules/core/04-channel/types"

	fwdtypes "github.com/noble-assets/orbiter/v2/types/controller/forwarding"
	"github.com/noble-assets/orbiter/v2/types/core"
	"github.com/noble-assets/orbiter/v2/zzverif/verif"
)

func init() {
	reg("H_C01_receivers", H_C01_receivers)
	reg("H_C01_denoms", H_C01_denoms)
	reg("H_C01_payloads", H_C01_payloads)
	reg("H_C01_faults", H_C01_faults)
	reg("H_C01_sequence", H_C01_sequence)
	reg("H_C02_faults", H_C02_faults)
	reg("H_C02_sequence", H_C02_sequence)
	reg("H_C02_conservation", H_C02_conservation)
	reg("H_C03_faults", H_C03_faults)
	reg("H_C03_panics", H_C03_panics)
	reg("H_C07_packets", H_C07_packets)
	reg("H_C07_payloads", H_C07_payloads)
	reg("H_C07_channels", H_C07_channels)
	reg("H_C07_callbacks", H_C07_callbacks)
	reg("H_C11_priors", H_C11_priors)
	reg("H_C11_sequence", H_C11_sequence)
}

// the same harness under two bounds profiles: all receiver spellings / denoms / amounts with a plain payload, and the two
// spellings of the orbiter address with every payload shape, pause and parameter configuration
func H_C01_receivers() { H_C01_recv() }
func H_C01_denoms()    { H_C01_recv() } // the two spellings of the orbiter address x every denomination class and amount spelling
func H_C01_payloads()  { H_C01_recv() }
func H_C01_faults()    { H_C01_recv() }        // the same with a failure bit at every environment call
func H_C01_sequence()  { H_C01_recv() }        // the same after an earlier complete transfer on the same keeper and controllers
func H_C02_faults()    { H_C02_conservation() }
func H_C02_sequence()  { H_C02_conservation() } // the same after an earlier complete transfer on the same keeper and controllers
func H_C07_packets()   { H_C07_passthrough() }
func H_C07_payloads()  { H_C07_passthrough() }

const (
	iOrb = iota
	iDust
	iUser1
	iUser2
	iFee1
	iFee2
	iEscrow
	iCCTP
	iWarp
	iTransfer
)

// H_C01_recv: any packet, any receiver spelling, any payload, any prior balances and pause configuration:
// success ack => the orbiter account holds no more than before (in any denom), and if the packet was addressed to the
// orbiter account, nothing of the transferred denom is left on it.
func H_C01_recv() {
	w := NewWorld(verif.Bound("faults") > 0)
	s := drawScenario()
	s.apply(w, true)
	before := snap(w.L)
	ack := w.Recv(s.data())
	after := snap(w.L)
	if !ack.Success() {
		verif.Cover("error-ack")
		return
	}
	verif.Cover("success-ack")
	for j := range trackedDenoms {
		verif.Assert(after[iOrb][j].LTE(before[iOrb][j]), "orbiter-balance-not-larger-after-success")
	}
	if s.toOrbiter() {
		verif.Cover("success-ack-to-orbiter")
		delivered := 0 // index of the delivered denomination among the tracked ones
		if s.denomKind == 4 {
			delivered = 4
		}
		verif.Assert(after[iOrb][delivered].IsZero(), "delivered-coin-has-left-the-orbiter-account")
		verif.Assert(len(w.CCTP.reqs)+len(w.Hyp.reqs)+len(w.Int.reqs) == 1, "success-ack-to-orbiter-means-forwarded")
	} else {
		verif.Cover("success-ack-to-someone-else")
	}
}

// H_C02_conservation: on every successful orbiter transfer, over the whole ledger.
func H_C02_conservation() {
	w := NewWorld(verif.Bound("faults") > 0)
	s := drawScenario()
	s.apply(w, true)
	before := snap(w.L)
	ack := w.Recv(s.data())
	after := snap(w.L)
	if !ack.Success() || !s.toOrbiter() {
		verif.Cover("not-a-successful-orbiter-transfer")
		return
	}
	verif.Cover("successful-orbiter-transfer")
	A := verif.ZOf(s.A)
	d := func(i, j int) verif.Z { return verif.ZSub(verif.ZOf(after[i][j]), verif.ZOf(before[i][j])) }
	zero := verif.ZInt(0)
	// the escrow released exactly the packet's coin
	verif.Assert(verif.ZEq(d(iEscrow, 0), verif.ZSub(zero, A)), "escrow-released-the-packet-coin")
	// fees + outgoing = released coin, outgoing strictly positive
	fees := verif.ZAdd(d(iFee1, 0), d(iFee2, 0))
	var outgoing verif.Z
	switch s.route {
	case routeCCTP:
		burned := w.CCTP.burned
		if burned.IsNil() {
			burned = math.ZeroInt() // nothing was burned
		}
		outgoing = verif.ZOf(burned)
		verif.Assert(verif.ZEq(d(iCCTP, 0), zero), "cctp-module-keeps-nothing")
	case routeHyp:
		outgoing = d(iWarp, 0)
	default:
		switch s.intKind {
		case intUser:
			outgoing = d(iUser1, 0)
		case intFeeRecipient:
			outgoing = verif.ZOf(w.Int.reqs[0].Amount[0].Amount)
			fees = verif.ZSub(fees, outgoing)
		default:
			outgoing = verif.ZOf(w.Int.reqs[0].Amount[0].Amount)
		}
	}
	verif.Assert(verif.ZEq(verif.ZAdd(fees, outgoing), A), "fees-plus-outgoing-equals-released-coin")
	verif.Assert(verif.ZLt(zero, outgoing), "outgoing-amount-strictly-positive")
	verif.Assert(!verif.ZLt(d(iFee1, 0), zero) && !verif.ZLt(d(iFee2, 0), zero), "fee-recipients-never-lose")
	// coins that were sitting on the orbiter account moved to the dust collector; nothing else changed
	verif.Assert(verif.ZEq(d(iDust, 0), verif.ZOf(s.priorD)), "prior-orbiter-coins-moved-to-the-dust-collector")
	verif.Assert(verif.ZEq(verif.ZOf(after[iOrb][0]), zero), "orbiter-account-empty-in-the-transferred-denom")
	verif.Assert(verif.ZEq(d(iOrb, 1), zero), "orbiter-other-denoms-untouched")
	verif.Assert(verif.ZEq(d(iUser2, 0), zero) && verif.ZEq(d(iTransfer, 0), zero), "bystanders-untouched")
	if s.route != routeInternal || s.intKind != intUser {
		verif.Assert(verif.ZEq(d(iUser1, 0), zero), "user1-untouched-unless-recipient")
	}
	if s.route != routeHyp {
		verif.Assert(verif.ZEq(d(iWarp, 0), zero), "warp-untouched-unless-route")
	}
	for i := range trackedAccounts() {
		for j := 1; j < len(trackedDenoms); j++ {
			verif.Assert(after[i][j].Equal(before[i][j]), "other-denominations-untouched")
		}
	}
	// total supply changes only by the CCTP burn
	sum := zero
	for i := range trackedAccounts() {
		sum = verif.ZAdd(sum, d(i, 0))
	}
	if s.route == routeCCTP {
		verif.Assert(verif.ZEq(sum, verif.ZSub(zero, outgoing)), "supply-changes-only-by-the-cctp-burn")
	} else {
		verif.Assert(verif.ZEq(sum, zero), "supply-unchanged")
	}
}

// H_C03_faults: every fallible environment call draws a failure bit; a success acknowledgement is returned only when
// nothing failed and every effect of the transfer is in place.
func H_C03_faults() {
	w := NewWorld(true)
	s := drawScenario()
	s.apply(w, true)
	ack := w.Recv(s.data())
	failed := w.L.failed + w.Ev.failed + w.CCTP.failed + w.Hyp.failed + w.Int.failed + w.App.failed
	if failed > 0 {
		verif.Cover("some-step-failed")
	}
	if !ack.Success() {
		verif.Cover("error-ack")
		return
	}
	verif.Cover("success-ack")
	verif.Assert(failed == 0, "success-ack-implies-no-step-failed")
	if !s.toOrbiter() {
		return
	}
	verif.Cover("success-ack-to-orbiter")
	// every fund movement of the transfer has completed
	verif.Assert(len(w.CCTP.reqs)+len(w.Hyp.reqs)+len(w.Int.reqs) == 1, "success-ack-implies-one-bridge-request")
	verif.Assert(w.L.Bal(core.ModuleAddress, nativeDenom).IsZero(), "success-ack-implies-nothing-left-behind")
	nonZeroFees := 0
	for _, f := range s.fees {
		if !f.bps || !verif.ZLt(verif.ZMul(verif.ZOf(s.A), verif.ZU64(uint64(f.bpsV))), verif.ZInt(10000)) {
			nonZeroFees++
		}
	}
	paid := 0
	for _, x := range w.L.sends {
		if x.from == string(core.ModuleAddress) && (x.to == string(feeR1) || x.to == string(feeR2)) {
			paid++
		}
	}
	if !(s.route == routeInternal && s.intKind == intFeeRecipient) {
		verif.Assert(paid == nonZeroFees, "success-ack-implies-every-fee-was-paid")
	}
}

// H_C03_panics: a downstream message server may also fail by PANICKING. Unrecovered, the panic aborts the receive (no
// acknowledgement is written, IBC core reverts everything: not a success). If anything between the bridge and the
// middleware recovers it, the outcome must still not be a success acknowledgement.
func H_C03_panics() {
	w := NewWorld(false)
	w.CCTP.panics, w.Hyp.panics, w.Int.panics = true, true, true
	s := drawScenario()
	s.apply(w, true)
	success := false
	aborted := verif.Aborts(func() { success = w.Recv(s.data()).Success() })
	failed := w.CCTP.failed + w.Hyp.failed + w.Int.failed
	if aborted {
		verif.Cover("receive-aborted")
		return
	}
	if !success {
		verif.Cover("error-ack")
		return
	}
	verif.Cover("success-ack")
	verif.Assert(failed == 0, "success-ack-implies-no-step-failed")
	if s.toOrbiter() {
		verif.Assert(len(w.CCTP.reqs)+len(w.Hyp.reqs)+len(w.Int.reqs) == 1, "success-ack-implies-one-bridge-request")
		verif.Assert(w.L.Bal(core.ModuleAddress, nativeDenom).IsZero(), "success-ack-implies-nothing-left-behind")
	}
}

// H_C07_passthrough: traffic that is not an ICS-20 transfer to the orbiter account.
func H_C07_passthrough() {
	w := NewWorld(false)
	s := drawScenario()
	s.apply(w, true)
	garbage := verif.Bound("garbage") > 0 && verif.Bool("not-ics20-data")
	// data that only a lenient JSON decoder accepts (unknown field) is not an ICS-20 packet either, whoever it names
	unknownField := !garbage && verif.Bound("garbage") > 0 && verif.Bool("ics20-json-with-an-unknown-field")
	if !garbage && !unknownField {
		verif.Assume(!s.toOrbiter())
	}
	d0 := verif.StateDigest(w.Ctx)
	reads0 := w.L.reads
	var pkt = packetOf(verif.Garbage())
	if unknownField {
		pkt = packetOf(verif.EncodeICS20Unknown(s.data()))
	} else if !garbage {
		pkt = packetOf(verif.EncodeICS20(s.data()))
	}
	orbBefore := snap(w.L)[iOrb]
	ack := w.MW.OnRecvPacket(w.Ctx, pkt, relayerAddr)
	verif.Cover("not-for-orbiter")
	verif.Assert(w.App.calls == 1, "wrapped-application-called-exactly-once")
	verif.Assert(ack == w.App.lastAck, "acknowledgement-is-the-wrapped-applications")
	verif.Assert(string(w.App.sawPacket.Data) == string(pkt.Data) && w.App.sawPacket.SourceChannel == pkt.SourceChannel && w.App.sawPacket.DestinationChannel == pkt.DestinationChannel &&
		w.App.sawPacket.SourcePort == pkt.SourcePort && w.App.sawPacket.DestinationPort == pkt.DestinationPort && w.App.sawPacket.Sequence == pkt.Sequence, "wrapped-application-saw-the-same-packet")
	verif.Assert(string(w.App.sawRelayr) == string(relayerAddr), "wrapped-application-saw-the-same-relayer")
	// orbiter's own state and accounts are untouched, nothing of orbiter ran
	verif.Assert(verif.StateDigest(w.Ctx) == d0, "orbiter-state-untouched")
	verif.Assert(len(w.Ev.list) == 0, "no-orbiter-event")
	verif.Assert(len(w.CCTP.reqs)+len(w.Hyp.reqs)+len(w.Int.reqs) == 0, "no-bridge-request")
	_ = reads0 // (reading a balance is not a state change: not asserted)
	orbAfter := snap(w.L)[iOrb]
	for j := range trackedDenoms {
		verif.Assert(orbAfter[j].Equal(orbBefore[j]), "orbiter-account-untouched")
	}
	verif.Assert(w.L.Bal(modAddr(core.DustCollectorName), nativeDenom).IsZero() || s.rcvKind == rcvDust, "dust-collector-untouched")
}

// H_C11_sequence: the same with the coins deposited AFTER an earlier transfer of the same block (whatever the first
// packet of a block leaves in memory must not change how the next one treats a deposit made in between).
func H_C11_sequence() { H_C11_priors() }

// H_C11_priors: the same packet on the same state with and without coins already sitting on the orbiter account.
func H_C11_priors() {
	s := drawScenario()
	w1, w2 := NewWorld(false), NewWorld(false)
	s.apply(w1, true)
	s.apply(w2, false)
	b1, b2 := snap(w1.L), snap(w2.L)
	ack1 := w1.Recv(s.data())
	ack2 := w2.Recv(s.data())
	a1, a2 := snap(w1.L), snap(w2.L)
	verif.Assert(ack1.Success() == ack2.Success(), "same-acknowledgement-class")
	if ack1.Success() {
		verif.Cover("both-succeed")
	} else {
		verif.Cover("both-refused")
	}
	if !s.toOrbiter() || !ack1.Success() || !ack2.Success() {
		return
	}
	// identical outcome for everyone except the orbiter account and the dust collector
	for i := range trackedAccounts() {
		if i == iOrb || i == iDust {
			continue
		}
		for j := range trackedDenoms {
			verif.Assert(a1[i][j].Sub(b1[i][j]).Equal(a2[i][j].Sub(b2[i][j])), "same-credits-with-and-without-prior-coins")
		}
	}
	verif.Assert(len(w1.CCTP.reqs) == len(w2.CCTP.reqs) && len(w1.Hyp.reqs) == len(w2.Hyp.reqs) && len(w1.Int.reqs) == len(w2.Int.reqs), "same-bridge-requests")
	if len(w1.CCTP.reqs) == 1 && len(w2.CCTP.reqs) == 1 {
		verif.Assert(w1.CCTP.reqs[0].amount.Equal(w2.CCTP.reqs[0].amount), "same-amount-forwarded")
	}
	if len(w1.Hyp.reqs) == 1 && len(w2.Hyp.reqs) == 1 {
		verif.Assert(w1.Hyp.reqs[0].Amount.Equal(w2.Hyp.reqs[0].Amount), "same-amount-forwarded")
	}
	if len(w1.Int.reqs) == 1 && len(w2.Int.reqs) == 1 {
		verif.Assert(w1.Int.reqs[0].Amount[0].Amount.Equal(w2.Int.reqs[0].Amount[0].Amount), "same-amount-forwarded")
	}
	// the pre-existing balance of the transferred denom ends up on the dust collector and is never forwarded or counted
	verif.Assert(a1[iDust][0].Sub(b1[iDust][0]).Equal(s.priorD), "prior-coins-end-up-on-the-dust-collector")
	verif.Assert(a1[iOrb][0].IsZero(), "nothing-left-on-orbiter")
	verif.Assert(a1[iOrb][1].Equal(s.priorO), "other-denominations-left-where-they-are")
	sameGenesis(w1.K.ExportGenesis(w1.Ctx), w2.K.ExportGenesis(w2.Ctx), "same-statistics")
}

// H_C07_channels: the counterparty's channel end may have any ICS-24 valid identifier (only Noble's own end is channel-N):
// non-orbiter traffic over such channels is passed through like any other.
func H_C07_channels() {
	w := NewWorld(false)
	w.L.Set(escrow, nativeDenom, math.NewInt(1000000))
	src := []string{"channel-7", "mychannel01", "channel-abc", "ibc.chan#[42]"}[verif.Choose("source-channel", 4)]
	port := []string{"transfer", "wasm.noble1abc", "icahost"}[verif.Choose("source-port", 3)]
	d := transfertypes.FungibleTokenPacketData{Denom: port + "/" + src + "/" + nativeDenom, Amount: "1000", Sender: "sender", Receiver: user2.String()}
	if verif.Bool("sender-native") {
		d.Denom = "uatom"
	}
	if verif.Bool("memo-with-orbiter-payload") {
		f, err := fwdtypes.NewInternalForwarding(user1.String())
		must(err)
		pl, err := core.NewPayload(f)
		must(err)
		d.Memo = verif.EncodeMemo(&core.PayloadWrapper{Orbiter: pl}, 0)
	}
	pkt := channeltypes.Packet{Sequence: 7, SourcePort: port, SourceChannel: src, DestinationPort: "transfer", DestinationChannel: "channel-0", Data: verif.EncodeICS20(d)}
	d0 := verif.StateDigest(w.Ctx)
	ack := w.MW.OnRecvPacket(w.Ctx, pkt, relayerAddr)
	verif.Cover("not-for-orbiter")
	verif.Assert(w.App.calls == 1, "wrapped-application-called-exactly-once")
	verif.Assert(ack == w.App.lastAck, "acknowledgement-is-the-wrapped-applications")
	verif.Assert(ack.Success(), "plain-transfer-over-any-valid-channel-succeeds")
	verif.Assert(verif.StateDigest(w.Ctx) == d0 && len(w.Ev.list) == 0, "orbiter-state-untouched")
	verif.Assert(!w.L.Bal(user2, nativeDenom).IsZero() || !w.L.Bal(user2, "ibc/VOUCHER").IsZero(), "receiver-credited-by-the-application")
}

// H_C07_callbacks: acknowledgement, timeout, channel and send paths are passed through unchanged: one call on the wrapped
// object with identical arguments, its result returned as is, nothing of orbiter touched — whatever the packet says
// (also for packets that were orbiter transfers when they were received).
func H_C07_callbacks() {
	w := NewWorld(false)
	f, err := fwdtypes.NewInternalForwarding(user1.String())
	must(err)
	pl, err := core.NewPayload(f)
	must(err)
	d := transfertypes.FungibleTokenPacketData{Denom: voucherOnSender, Amount: "1000", Sender: "sender", Receiver: user2.String()}
	if verif.Bool("orbiter-packet") {
		d.Receiver = core.ModuleAddress.String()
		d.Memo = verif.EncodeMemo(&core.PayloadWrapper{Orbiter: pl}, 0)
	}
	pkt := packetOf(verif.EncodeICS20(d))
	pkt.Sequence = verif.Uint64("packet-sequence")
	d0 := verif.StateDigest(w.Ctx)
	ackBz := verif.Bytes("ack-bytes", 4)
	var got error
	which := verif.Choose("callback", 6)
	switch which {
	case 0:
		got = w.MW.OnAcknowledgementPacket(w.Ctx, pkt, ackBz, relayerAddr)
	case 1:
		got = w.MW.OnTimeoutPacket(w.Ctx, pkt, relayerAddr)
	case 2:
		got = w.MW.OnChanCloseInit(w.Ctx, "transfer", "channel-0")
	case 3:
		got = w.MW.OnChanOpenConfirm(w.Ctx, "transfer", "channel-0")
	case 4:
		seq, e := w.MW.SendPacket(w.Ctx, nil, "transfer", "channel-0", clienttypes.Height{}, 77, pkt.Data)
		got = e
		verif.Assert(len(w.ICS4.cbs) == 1 && w.ICS4.cbs[0].method == "SendPacket", "send-reaches-the-ics4-wrapper-once")
		if len(w.ICS4.cbs) == 1 {
			c := w.ICS4.cbs[0]
			verif.Assert(c.port == "transfer" && c.ch == "channel-0" && c.ts == 77 && string(c.data) == string(pkt.Data), "send-arguments-unchanged")
		}
		verif.Assert(e == w.ICS4.sndErr && (e != nil || seq == w.ICS4.seq), "send-result-unchanged")
	case 5:
		v, ok := w.MW.GetAppVersion(w.Ctx, "transfer", "channel-0")
		verif.Assert(ok && v == "ics20-1" && len(w.ICS4.cbs) == 1, "app-version-passed-through")
	}
	verif.Cover("callback-called")
	if which <= 3 {
		verif.Assert(len(w.App.cbs) == 1, "callback-reaches-the-wrapped-application-once")
		if len(w.App.cbs) == 1 {
			c := w.App.cbs[0]
			verif.Assert(c.method == []string{"OnAcknowledgementPacket", "OnTimeoutPacket", "OnChanCloseInit", "OnChanOpenConfirm"}[which], "same-callback")
			if which <= 1 {
				verif.Assert(string(c.packet.Data) == string(pkt.Data) && c.packet.Sequence == pkt.Sequence && c.packet.SourceChannel == pkt.SourceChannel && c.packet.DestinationChannel == pkt.DestinationChannel, "callback-packet-unchanged")
				verif.Assert(string(c.relayer) == string(relayerAddr), "callback-relayer-unchanged")
			}
			if which == 0 {
				verif.Assert(string(c.ack) == string(ackBz), "acknowledgement-bytes-unchanged")
			}
		}
		verif.Assert(got == w.App.cbErr, "callback-result-unchanged")
	}
	verif.Assert(w.App.calls == 0, "receive-path-not-involved")
	verif.Assert(verif.StateDigest(w.Ctx) == d0 && len(w.Ev.list) == 0 && len(w.L.sends) == 0, "orbiter-untouched-by-callbacks")
}
