package h

import (
	"context"
	"errors"

	"cosmossdk.io/math"
	sdk "github.com/cosmos/cosmos-sdk/types"

	executorcomp "github.com/noble-assets/orbiter/v2/keeper/component/executor"
	"github.com/noble-assets/orbiter/v2/types"
	executortypes "github.com/noble-assets/orbiter/v2/types/component/executor"
	actiontypes "github.com/noble-assets/orbiter/v2/types/controller/action"
	fwdtypes "github.com/noble-assets/orbiter/v2/types/controller/forwarding"
	"github.com/noble-assets/orbiter/v2/types/core"
	"github.com/noble-assets/orbiter/v2/zzverif/verif"
)

func init() {
	reg("H_C09_actions", H_C09_actions)
}

var errRevert = errors.New("a later message of the transaction failed")

var actionNames = []string{"ACTION_FEE", "ACTION_SWAP", "ACTION_UNSUPPORTED", "ACTION_NOPE", ""}

func actionOfName(k int) core.ActionID {
	if k < 2 {
		return core.ActionID(k + 1)
	}
	return 0
}

// swapStub is a second action controller (registered under ACTION_SWAP) that only records that it ran.
type swapStub struct{ ran int }

func (s *swapStub) ID() core.ActionID { return core.ACTION_SWAP }
func (s *swapStub) Name() string      { return "swap-stub" }
func (s *swapStub) HandlePacket(context.Context, *types.ActionPacket) error {
	s.ran++
	return nil
}

// H_C09_actions: arbitrary paused-action set, k pause/unpause messages with queries after each, then a transfer whose payload
// contains a chosen action (or none) through the real middleware.
func H_C09_actions() {
	// an action identifier can be paused whether or not the chain has a controller for it (the application wires only
	// the fee controller): the paused set and its queries must not depend on the wiring
	swapRegistered := verif.Bool("swap-controller-registered")
	w := newWorldWith(false, swapRegistered)
	ex := w.K.Executor()
	ms := executorcomp.NewMsgServer(ex, w.K)
	qs := executorcomp.NewQueryServer(ex)
	var ref [3]bool
	for a := core.ActionID(1); a <= 2; a++ {
		if verif.Bool("pre-action-paused") {
			must(ex.SetPausedAction(w.Ctx, a))
			ref[a] = true
		}
	}
	// optionally the module has already handled a transfer with the fee action before the admin messages arrive (enforcement
	// must follow the CURRENT paused set, not what was true when the executor first saw the action)
	w.L.Set(escrow, nativeDenom, math.NewInt(50000))
	if verif.Bool("earlier-transfer-with-the-fee-action") {
		f0, err := fwdtypes.NewInternalForwarding(user2.String())
		must(err)
		pl0, err := core.NewPayload(f0, feeAction(100))
		must(err)
		ack0 := w.Recv(orbiterData(math.NewInt(2000), pl0))
		verif.Assert(ack0.Success() == !ref[core.ACTION_FEE], "earlier-transfer-follows-the-paused-set")
		w.Int.reqs = nil
	}
	fee0 := w.L.Bal(feeR1, nativeDenom)
	for s := 0; s < verif.Bound("steps"); s++ {
		nameK := verif.Choose("msg-action", len(actionNames))
		a := actionOfName(nameK)
		evBefore := len(w.Ev.list)
		var err error
		// the message may be part of a transaction that fails afterwards: pause state changes only through SUCCESSFUL messages
		reverted := verif.Bool("transaction-reverted-afterwards")
		if verif.Bool("msg-is-pause") {
			_ = verif.Atomically(w.Ctx, func(ctx sdk.Context) error {
				_, err = ms.PauseAction(ctx, &executortypes.MsgPauseAction{Signer: authorityAddr.String(), ActionId: actionNames[nameK]})
				if err == nil && reverted {
					return errRevert
				}
				return err
			})
			want := a != 0 && !ref[a]
			verif.Assert((err == nil) == want, "pause-action-result")
			if want && !reverted {
				ref[a] = true
			}
		} else {
			_ = verif.Atomically(w.Ctx, func(ctx sdk.Context) error {
				_, err = ms.UnpauseAction(ctx, &executortypes.MsgUnpauseAction{Signer: authorityAddr.String(), ActionId: actionNames[nameK]})
				if err == nil && reverted {
					return errRevert
				}
				return err
			})
			want := a != 0 && ref[a]
			verif.Assert((err == nil) == want, "unpause-action-result")
			if want && !reverted {
				ref[a] = false
			}
		}
		if err == nil {
			verif.Cover("message-accepted") // (events are not pinned by the property: not asserted)
		} else {
			verif.Cover("message-refused")
		}
		_ = evBefore
		// queries report exactly the set
		pa, qerr := qs.PausedActions(w.Ctx, &executortypes.QueryPausedActionsRequest{})
		verif.Assert(qerr == nil, "paused-actions-query-succeeds")
		if qerr == nil {
			cnt := 0
			for a := core.ActionID(1); a <= 2; a++ {
				if ref[a] {
					cnt++
				}
				listed := 0
				for _, x := range pa.ActionIds {
					if x == a {
						listed++
					}
				}
				verif.Assert(listed <= 1, "paused-actions-query-lists-no-duplicates")
				verif.Assert((listed == 1) == ref[a], "paused-actions-query-is-the-set")
			}
			verif.Assert(len(pa.ActionIds) == cnt, "paused-actions-query-has-no-foreign-entry")
		}
		for k := 0; k < 2; k++ {
			ia, qerr := qs.IsActionPaused(w.Ctx, &executortypes.QueryIsActionPausedRequest{ActionId: actionNames[k]})
			verif.Assert(qerr == nil && ia.IsPaused == ref[k+1], "is-action-paused-query-is-the-set")
		}
	}

	// ---- probe transfer: payload with the fee action, the swap stub, both, or none ----------------------------------
	f, err := fwdtypes.NewInternalForwarding(user1.String())
	must(err)
	var acts []*core.Action
	withFee, withSwap := false, false
	nProbe := 4
	if !swapRegistered {
		nProbe = 2 // (a payload naming an action without a controller is refused for that reason: C05)
	}
	switch verif.Choose("probe-actions", nProbe) {
	case 1:
		withFee = true
	case 2:
		withSwap = true
	case 3:
		withFee, withSwap = true, true
	}
	if withFee {
		bps, err := actiontypes.NewFeeBasisPoints(100)
		must(err)
		fi, err := actiontypes.NewFeeInfo(feeR1.String(), bps)
		must(err)
		a, err := actiontypes.NewFeeAction(fi)
		must(err)
		acts = append(acts, a)
	}
	if withSwap {
		a, err := core.NewAction(core.ACTION_SWAP, &actiontypes.FeeAttributes{})
		must(err)
		acts = append(acts, a)
	}
	pl, err := core.NewPayload(f, acts...)
	must(err)
	A := math.NewInt(1000)
	ack := w.Recv(orbiterData(A, pl))
	blocked := (withFee && ref[core.ACTION_FEE]) || (withSwap && ref[core.ACTION_SWAP])
	if blocked {
		verif.Cover("probe-with-paused-action")
		verif.Assert(!ack.Success(), "payload-with-paused-action-gets-error-ack")
		verif.Assert(len(w.Int.reqs) == 0, "payload-with-paused-action-is-not-forwarded")
		if withFee && ref[core.ACTION_FEE] {
			verif.Assert(w.L.Bal(feeR1, nativeDenom).Equal(fee0), "no-fee-is-paid-when-the-fee-action-is-paused")
		}
		if withSwap && ref[core.ACTION_SWAP] {
			verif.Assert(w.swap.ran == 0, "paused-action-never-runs")
		}
	} else {
		verif.Cover("probe-unaffected")
		verif.Assert(ack.Success(), "payload-without-paused-action-proceeds")
		fee := math.ZeroInt()
		if withFee {
			fee = math.NewInt(10)
		}
		verif.Assert(w.L.Bal(feeR1, nativeDenom).Sub(fee0).Equal(fee), "fee-as-without-any-pause")
		verif.Assert(w.L.Bal(user1, nativeDenom).Equal(A.Sub(fee)), "delivery-as-without-any-pause")
		if withSwap {
			verif.Assert(w.swap.ran == 1, "unpaused-action-runs-once")
		}
	}
}
