package h

// Common harness R: one packet through the real middleware (DESIGN.md §3 "Common harness R").

import (
	"github.com/cosmos/cosmos-sdk/types/bech32"
	warptypes "github.com/bcp-innovations/hyperlane-cosmos/x/warp/types"
	"strings"

	"cosmossdk.io/math"
	sdk "github.com/cosmos/cosmos-sdk/types"
	transfertypes "github.com/cosmos/ibc-go/v8/modules/apps/transfer/types"

	adaptertypes "github.com/noble-assets/orbiter/v2/types/component/adapter"
	actiontypes "github.com/noble-assets/orbiter/v2/types/controller/action"
	fwdtypes "github.com/noble-assets/orbiter/v2/types/controller/forwarding"
	"github.com/noble-assets/orbiter/v2/types/core"
	"github.com/noble-assets/orbiter/v2/zzverif/verif"
)

const (
	rcvLower = iota // the orbiter address as the module prints it
	rcvUpper        // the same address in upper case (valid bech32, decodes to the orbiter account)
	rcvMixed        // mixed case: not valid bech32
	rcvUser         // another account
	rcvDust         // the dust collector (blocked module account)
	rcvEmpty
	rcvGarbage
	rcvSymbolic // an arbitrary string (see verif.KnownAddress)
	rcvForeign  // the orbiter account's BYTES under another chain's prefix: valid bech32, but not an address on this chain
	nRcvKinds
)

const (
	denomReturning = iota // transfer/channel-7/uusdc: Noble-native coming home over the channel it left on
	denomSenderNative     // uatom: native to the sender, ICS-20 mints a voucher
	denomTwoHop           // transfer/channel-7/transfer/channel-3/uatom: returning, but not native here
	denomOtherChannel     // transfer/channel-8/uusdc: voucher prefix of another channel
	nDenomKinds
)

const (
	memoPayload = iota // {"orbiter": <payload>}
	memoExtraKey       // the same plus a second root key
	memoEmpty          // ""
	memoNotJSON
	memoNoOrbiterKey // {"forward": {}}
	memoNullOrbiter  // {"orbiter": null}
	nMemoKinds
)

const (
	routeCCTP = iota
	routeHyp
	routeInternal
)

const (
	intUser = iota
	intFeeRecipient
	intDust    // blocked
	intOrbiter // the orbiter account itself
	intInvalid
	intOrbiterUpper // the orbiter account in its upper-case spelling
	nIntKinds
)

type feeSpec struct {
	bps    bool
	bpsV   uint32
	fixedV math.Int
	to     sdk.AccAddress
}

// Scenario is one fully drawn packet plus the prior state it meets. Draws happen once, so the same scenario can be
// applied to two worlds (C11).
type Scenario struct {
	rcvKind, denomKind, memoKind, route, intKind int
	earlier                                      int // an earlier complete transfer over route earlier-1 (0: none)
	hypSynthetic                                 bool
	receiver                                     string
	amountNaN                                    bool
	amountStr                                    string // a non-canonical spelling of the amount (s.A is its value)
	A                                            math.Int
	denom                                        string
	memo                                         string
	payload                                      *core.Payload
	fees                                         []feeSpec
	domain                                       uint32
	withCaller                                   bool
	ptLen                                        int
	limit                                        uint32
	escrowBal                                    math.Int
	priorD, priorO                               math.Int // coins already on the orbiter account: transferred denom / another denom
	protocolPaused, pairPaused, feePaused        bool
	blankSender                                  bool
}

func orbiterUpper() string { return strings.ToUpper(core.ModuleAddress.String()) }

func orbiterForeign() string {
	x, err := bech32.ConvertAndEncode("cosmos", core.ModuleAddress)
	must(err)
	return x
}

func orbiterMixed() string {
	s := core.ModuleAddress.String()
	return s[:len(s)-3] + strings.ToUpper(s[len(s)-3:])
}

// drawScenario draws a scenario; the bounds rcvKinds, denomKinds, memoKinds, intKinds, fees, priors, pauses select how
// much of the space is symbolic (a kind count of 1 fixes that dimension to its first value).
func drawScenario() *Scenario {
	s := &Scenario{}
	s.rcvKind = verif.Choose("receiver-kind", verif.Bound("rcvKinds"))
	switch s.rcvKind {
	case rcvLower:
		s.receiver = core.ModuleAddress.String()
	case rcvUpper:
		s.receiver = orbiterUpper()
	case rcvMixed:
		s.receiver = orbiterMixed()
	case rcvUser:
		s.receiver = user2.String()
	case rcvDust:
		s.receiver = modAddr(core.DustCollectorName).String()
	case rcvEmpty:
		s.receiver = ""
	case rcvGarbage:
		s.receiver = "noble1notanaddress"
	case rcvForeign:
		s.receiver = orbiterForeign()
	case rcvSymbolic:
		s.receiver = verif.String("receiver", 48)
	}
	s.denomKind = verif.Choose("denom-kind", verif.Bound("denomKinds"))
	// (kind 4: ANOTHER Noble-native denomination returning home — the account may hold uusdc besides it)
	s.denom = []string{voucherOnSender, "uatom", "transfer/channel-7/transfer/channel-3/uatom", "transfer/channel-8/uusdc", "transfer/channel-7/ueure"}[s.denomKind]
	if verif.Bound("amountSpellings") > 0 && verif.Bool("amount-in-another-spelling") {
		// spellings ICS-20 accepts besides the canonical decimal (cosmossdk.io/math parses with base 0): octal, hexadecimal,
		// digit separators — the value is what ICS-20 credits
		k := verif.Choose("amount-spelling", 3)
		s.amountStr = []string{"0100", "0x40", "1_00"}[k]
		s.A = math.NewInt([]int64{64, 64, 100}[k])
	} else if verif.Bound("amountKinds") > 1 && verif.Bool("amount-not-a-number") {
		s.amountNaN = true
	} else {
		s.A = verif.BigInt("A")
		if verif.Bound("amountKinds") < 3 {
			verif.Assume(s.A.IsPositive())
		}
	}
	s.blankSender = verif.Bound("amountKinds") > 2 && verif.Bool("blank-sender")

	// ---- payload ----------------------------------------------------------------------------------------------
	s.memoKind = verif.Choose("memo-kind", verif.Bound("memoKinds"))
	if s.memoKind >= memoEmpty {
		// no payload is encoded in the memo: its dimensions are not drawn
		s.memo = []string{"", "", "", "orbiter please", `{"forward":{"receiver":"x"}}`, `{"orbiter":null}`}[s.memoKind]
		s.drawPriorState()
		return s
	}
	s.route = verif.Choose("route", 3)
	if verif.Bound("ptMax") > 0 {
		s.ptLen = verif.Choose("passthrough-len", verif.Bound("ptMax")+1)
		s.limit = uint32(verif.Choose("limit", verif.Bound("ptMax")+1))
	}
	pt := make([]byte, s.ptLen)
	var f *core.Forwarding
	switch s.route {
	case routeCCTP:
		s.domain = uint32(verif.Choose("domain", 2) * 5) // 0 or 5 (identifier syntax over all domains: C20)
		s.withCaller = verif.Bool("with-caller")
		var caller []byte
		if s.withCaller {
			caller = []byte{9, 9}
		}
		f = &core.Forwarding{ProtocolId: core.PROTOCOL_CCTP, PassthroughPayload: pt}
		must(f.SetAttributes(&fwdtypes.CCTPAttributes{DestinationDomain: s.domain, MintRecipient: []byte{1, 2, 3}, DestinationCaller: caller}))
	case routeHyp:
		s.domain = uint32(verif.Choose("domain", 2) * 5)
		maxFee := math.ZeroInt()
		if verif.Bound("hypVariants") > 0 {
			// a gas payment allowance in the transferred denomination (the bridge model quotes no payment), and a token
			// that is the synthetic representation of ANOTHER denomination (which the orbiter account may happen to hold)
			if verif.Bool("hyperlane-max-fee-given") {
				maxFee = math.NewInt(3)
			}
			s.hypSynthetic = verif.Bool("hyperlane-token-is-synthetic-of-another-denom")
		}
		f = &core.Forwarding{ProtocolId: core.PROTOCOL_HYPERLANE, PassthroughPayload: pt}
		must(f.SetAttributes(&fwdtypes.HypAttributes{TokenId: hypTokenID(), DestinationDomain: s.domain, Recipient: make([]byte, 32), GasLimit: math.ZeroInt(), MaxFee: sdk.Coin{Denom: "uusdc", Amount: maxFee}}))
	default:
		s.intKind = verif.Choose("internal-recipient", verif.Bound("intKinds"))
		rcpt := []string{user1.String(), feeR1.String(), modAddr(core.DustCollectorName).String(), core.ModuleAddress.String(), "noble1nope", orbiterUpper()}[s.intKind]
		f = &core.Forwarding{ProtocolId: core.PROTOCOL_INTERNAL, PassthroughPayload: pt}
		must(f.SetAttributes(&fwdtypes.InternalAttributes{Recipient: rcpt}))
	}
	var acts []*core.Action
	nf := verif.Choose("fees", verif.Bound("fees")+1)
	if nf > 0 {
		infos := make([]*actiontypes.FeeInfo, 0, 4)
		for i := 0; i < nf; i++ {
			fs := feeSpec{to: feeR1}
			if i%2 == 1 {
				fs.to = feeR2
			}
			rcp := fs.to.String()
			// fee recipients: an ordinary account, or the orbiter account itself in either spelling
			switch verif.Choose("fee-recipient", verif.Bound("feeRcpKinds")) {
			case 1:
				fs.to, rcp = core.ModuleAddress, core.ModuleAddress.String()
			case 2:
				fs.to, rcp = core.ModuleAddress, orbiterUpper()
			}
			fi := &actiontypes.FeeInfo{Recipient: rcp}
			if verif.Bool("fee-is-bps") {
				fs.bps, fs.bpsV = true, verif.Uint32("bps")
				fi.FeeType = &actiontypes.FeeInfo_BasisPoints_{BasisPoints: &actiontypes.FeeInfo_BasisPoints{Value: fs.bpsV}}
			} else {
				fs.fixedV = verif.BigInt("fixed")
				fi.FeeType = &actiontypes.FeeInfo_Amount_{Amount: &actiontypes.FeeInfo_Amount{Value: fs.fixedV.String()}}
			}
			s.fees = append(s.fees, fs)
			infos = append(infos, fi)
		}
		a := &core.Action{Id: core.ACTION_FEE}
		must(a.SetAttributes(&actiontypes.FeeAttributes{FeesInfo: infos}))
		acts = append(acts, a)
	}
	s.payload = &core.Payload{Forwarding: f, PreActions: acts}
	s.memo = verif.EncodeMemo(&core.PayloadWrapper{Orbiter: s.payload}, s.memoKind) // memoExtraKey == 1 extra root key
	s.drawPriorState()
	return s
}

func (s *Scenario) drawPriorState() {
	if verif.Bound("earlier") > 0 {
		s.earlier = verif.Choose("earlier-transfer", 4)
	}
	s.escrowBal = verif.BigInt("escrow-balance")
	verif.Assume(!s.escrowBal.IsNegative())
	s.priorD, s.priorO = math.ZeroInt(), math.ZeroInt()
	if verif.Bound("priors") > 0 {
		s.priorD, s.priorO = verif.BigInt("prior-orbiter-balance"), verif.BigInt("prior-orbiter-balance-other-denom")
		verif.Assume(!s.priorD.IsNegative() && !s.priorO.IsNegative())
		// total supply stays below 2^256 (bank invariant)
		verif.Assume(s.priorD.LT(math.NewIntWithDecimal(1, 70)) && s.escrowBal.LT(math.NewIntWithDecimal(1, 70)))
	}
	if verif.Bound("pauses") > 0 && s.memoKind < memoEmpty {
		s.protocolPaused = verif.Bool("route-protocol-paused")
		s.pairPaused = verif.Bool("route-destination-paused")
		s.feePaused = verif.Bool("fee-action-paused")
	}
}

func (s *Scenario) routeProtocol() core.ProtocolID {
	return []core.ProtocolID{core.PROTOCOL_CCTP, core.PROTOCOL_HYPERLANE, core.PROTOCOL_INTERNAL}[s.route]
}

func (s *Scenario) routeCounterparty() string {
	if s.route == routeInternal {
		return fwdtypes.CounterpartyID
	}
	return (&fwdtypes.CCTPAttributes{DestinationDomain: s.domain}).CounterpartyID()
}

// apply installs the prior state of the scenario in w.
func (s *Scenario) apply(w *World, withPriors bool) {
	w.Earlier(s.earlier)
	w.L.Set(escrow, nativeDenom, s.escrowBal)
	w.L.Set(escrow, "ibc/HASH", s.escrowBal)
	w.L.Set(escrow, "ueure", s.escrowBal)
	if withPriors {
		w.L.Set(core.ModuleAddress, nativeDenom, s.priorD)
		w.L.Set(core.ModuleAddress, "uother", s.priorO)
	}
	if s.hypSynthetic {
		w.Hyp.tokenType, w.Hyp.originDenom = warptypes.HYP_TOKEN_TYPE_SYNTHETIC, "uother"
	}
	if s.limit > 0 {
		must(w.K.Adapter().SetParams(w.Ctx, adaptertypes.Params{MaxPassthroughPayloadSize: s.limit}))
	}
	if s.protocolPaused {
		must(w.K.Forwarder().SetPausedProtocol(w.Ctx, s.routeProtocol()))
	}
	if s.pairPaused {
		must(w.K.Forwarder().SetPausedCrossChain(w.Ctx, core.CrossChainID{ProtocolId: s.routeProtocol(), CounterpartyId: s.routeCounterparty()}))
	}
	if s.feePaused {
		must(w.K.Executor().SetPausedAction(w.Ctx, core.ACTION_FEE))
	}
	for _, a := range []sdk.AccAddress{user1, user2, feeR1, feeR2, modAddr(core.DustCollectorName)} {
		verif.KnownAddress(a)
	}
}

func (s *Scenario) data() transfertypes.FungibleTokenPacketData {
	d := transfertypes.FungibleTokenPacketData{Denom: s.denom, Sender: "sender-on-counterparty", Receiver: s.receiver, Memo: s.memo}
	if s.amountStr != "" {
		d.Amount = s.amountStr
	} else if s.amountNaN {
		d.Amount = "12x"
	} else {
		d.Amount = s.A.String()
	}
	if s.blankSender {
		d.Sender = "  "
	}
	return d
}

// toOrbiter: does the receiver string denote the orbiter account (decode to its address)?
func (s *Scenario) toOrbiter() bool {
	a, err := sdk.AccAddressFromBech32(s.receiver)
	return err == nil && a.Equals(core.ModuleAddress)
}

// tracked accounts and denoms of the ledger assertions
var trackedDenoms = []string{nativeDenom, "uother", "ibc/HASH", "ibc/VOUCHER", "ueure"}

func trackedAccounts() []sdk.AccAddress {
	return []sdk.AccAddress{core.ModuleAddress, modAddr(core.DustCollectorName), user1, user2, feeR1, feeR2, escrow, cctpModuleAddr, warpModuleAddr, transferModuleAddr}
}

type snapshot [][]math.Int

func snap(l *Ledger) snapshot {
	var out snapshot
	for _, a := range trackedAccounts() {
		var row []math.Int
		for _, d := range trackedDenoms {
			row = append(row, l.Bal(a, d))
		}
		out = append(out, row)
	}
	return out
}

// hypTokenID: the warp token the scenario's Hyperlane payloads name — the same one World.Earlier used (whatever a
// controller remembers about a token from an earlier transfer must not change how a later transfer is checked).
func hypTokenID() []byte {
	b := make([]byte, 32)
	for i := range b {
		b[i] = 0xb1
	}
	return b
}
