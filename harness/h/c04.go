package h

import (
	"strings"
	"context"

	"cosmossdk.io/math"
	sdk "github.com/cosmos/cosmos-sdk/types"

	actionctrl "github.com/noble-assets/orbiter/v2/controller/action"
	"github.com/noble-assets/orbiter/v2/types"
	actiontypes "github.com/noble-assets/orbiter/v2/types/controller/action"
	"github.com/noble-assets/orbiter/v2/types/core"
	"github.com/noble-assets/orbiter/v2/zzverif/verif"
)

func init() {
	reg("H_C04_fee", H_C04_fee)
	reg("H_C04_fee3", H_C04_fee3)
	reg("H_C04_compute_amount", H_C04_compute_amount)
	reg("H_C04_count", H_C04_count)
}

// recipient strings: two valid accounts (may repeat), the upper-case spelling of a valid one (valid bech32),
// and malformed ones.
func feeRecipient(k int) (string, bool, sdk.AccAddress) {
	switch k {
	case 0:
		return feeR1.String(), true, feeR1
	case 1:
		return feeR2.String(), true, feeR2
	case 2:
		return "", false, nil
	case 3:
		s := feeR1.String()
		return s[:len(s)-1] + "q", false, nil // broken checksum (the valid one does not end in q, checked by Cover)
	}
	return "cosmos1qqqsyqcyq5rqwzqfpg9scrgwpugpzysn7hzdtn", false, nil // wrong prefix
}

const (
	kBps = iota
	kFixed
	kFixedNaN
	kNoType
	kFixedSpelled // a positive integer in a spelling other than plain decimal (hexadecimal, binary, digit separators)
)

// H_C04_fee: the real FeeController.HandlePacket on a ledger, over all amounts, bps values, fixed amounts and
// lists of 0..N entries (N = bound "entries", one past MaxFeeRecipients in thorough).
func H_C04_fee3() { H_C04_fee() } // thorough tier only: three entries over fewer recipient / entry kinds

func H_C04_fee() {
	ctx := context.Background()
	l := &Ledger{}
	ev := &events{}
	fc, err := actionctrl.NewFeeController(nopLogger{}, ev, l)
	if err != nil {
		return
	}
	A := verif.BigInt("A")
	verif.Assume(A.IsPositive())
	ta, err := core.NewTransferAttributes(core.PROTOCOL_IBC, "channel-0", "uusdc", A)
	if err != nil {
		return
	}
	l.Set(core.ModuleAddress, "uusdc", A) // ICS-20 has just credited A

	maxN := verif.Bound("entries")
	minN := verif.Bound("minEntries")
	n := minN + verif.Choose("n", maxN-minN+1)
	infos := make([]*actiontypes.FeeInfo, 0, 8)
	kind := make([]int, 8)
	bps := make([]uint32, 8)
	fixed := make([]math.Int, 8)
	rcpOK := make([]bool, 8)
	rcp := make([]sdk.AccAddress, 8)
	nonNumbers := []string{"", "abc", "1.5", "12a", "115792089237316195423570985008687907853269984665640564039457584007913129639936", "1" + strings.Repeat("0", 80)} // (the last two: decimal, but beyond 256 bits)
	for i := 0; i < n; i++ {
		fi := &actiontypes.FeeInfo{}
		fi.Recipient, rcpOK[i], rcp[i] = feeRecipient(verif.Choose("rcp", verif.Bound("rcpKinds")))
		if i > 0 && verif.Bound("laterFixed") > 0 {
			kind[i] = kFixed // (profile for longer lists: any kind first, fixed amounts after it)
		} else {
			kind[i] = verif.Choose("kind", verif.Bound("feeKinds"))
		}
		switch kind[i] {
		case kBps:
			bps[i] = verif.Uint32("bps")
			fi.FeeType = &actiontypes.FeeInfo_BasisPoints_{BasisPoints: &actiontypes.FeeInfo_BasisPoints{Value: bps[i]}}
		case kFixed:
			fixed[i] = verif.BigInt("fixed")
			fi.FeeType = &actiontypes.FeeInfo_Amount_{Amount: &actiontypes.FeeInfo_Amount{Value: fixed[i].String()}}
		case kFixedNaN:
			fi.FeeType = &actiontypes.FeeInfo_Amount_{Amount: &actiontypes.FeeInfo_Amount{Value: nonNumbers[verif.Choose("nan", len(nonNumbers))]}}
		case kNoType:
		case kFixedSpelled:
			k := verif.Choose("spelling", 3)
			fixed[i] = math.NewInt([]int64{64, 100, 3}[k])
			fi.FeeType = &actiontypes.FeeInfo_Amount_{Amount: &actiontypes.FeeInfo_Amount{Value: []string{"0x40", "1_00", "0b11"}[k]}}
		}
		infos = append(infos, fi)
	}
	action := &core.Action{Id: core.ACTION_FEE}
	if action.SetAttributes(&actiontypes.FeeAttributes{FeesInfo: infos}) != nil {
		return
	}
	pkt := &types.ActionPacket{TransferAttributes: ta, Action: action}

	err = fc.HandlePacket(ctx, pkt)

	// ---- reference -------------------------------------------------------------------------------
	zA := verif.ZOf(A)
	two256 := verif.ZPow2(256)
	mustRefuse := n > actiontypes.MaxFeeRecipients
	mayRefuse := false // an amount in an unusual spelling: refusing it is fine, crediting anything but the value it states is not
	exp := make([]verif.Z, 8) // expected credit of entry i
	total := verif.ZInt(0)
	for i := 0; i < n; i++ {
		exp[i] = verif.ZInt(0)
		if !rcpOK[i] {
			mustRefuse = true
		}
		switch kind[i] {
		case kBps:
			if bps[i] == 0 || bps[i] > 10000 {
				mustRefuse = true
			} else {
				prod := verif.ZMul(zA, verif.ZU64(uint64(bps[i])))
				if !verif.ZLt(prod, two256) {
					mustRefuse = true // arithmetic overflow
				}
				exp[i] = verif.ZFloorDiv(prod, 10000)
			}
		case kFixed:
			if !fixed[i].IsPositive() {
				mustRefuse = true
			} else {
				exp[i] = verif.ZOf(fixed[i])
			}
		case kFixedSpelled:
			mayRefuse = true
			exp[i] = verif.ZOf(fixed[i])
		default:
			mustRefuse = true
		}
		total = verif.ZAdd(total, exp[i])
		if !verif.ZLt(total, two256) {
			mustRefuse = true // the running sum overflows
		}
	}
	if !verif.ZLt(total, zA) {
		mustRefuse = true // fees must stay strictly below the amount
	}

	if err != nil {
		verif.Cover("refused")
		verif.Assert(mustRefuse || mayRefuse, "refused-only-for-a-stated-reason")
		verif.Assert(len(l.sends) == 0, "nothing-paid-when-refused")
		verif.Assert(ta.DestinationAmount().Equal(A), "destination-amount-untouched-when-refused")
		verif.Assert(l.Bal(core.ModuleAddress, "uusdc").Equal(A), "orbiter-balance-untouched-when-refused")
		return
	}
	verif.Cover("accepted")
	verif.Assert(!mustRefuse, "invalid-fee-action-is-refused")
	if mustRefuse {
		return
	}
	// credits: every recipient ends up with exactly the sum of the entries that name it (entries rounding to zero add
	// nothing); how the payments are batched or ordered is not pinned by the property
	for _, r := range []sdk.AccAddress{feeR1, feeR2} {
		want := verif.ZInt(0)
		for i := 0; i < n; i++ {
			if string(rcp[i]) == string(r) {
				want = verif.ZAdd(want, exp[i])
			}
		}
		verif.Assert(verif.ZEq(verif.ZOf(l.Bal(r, "uusdc")), want), "recipient-is-credited-the-sum-of-its-entries")
	}
	for _, s := range l.sends {
		verif.Assert(s.from == string(core.ModuleAddress), "credit-is-paid-by-the-orbiter-account")
		verif.Assert(s.denom == "uusdc", "credit-in-the-transfer-denom")
		verif.Assert(s.to == string(feeR1) || s.to == string(feeR2), "only-named-recipients-are-credited")
	}
	verif.Assert(verif.ZEq(verif.ZOf(ta.DestinationAmount()), verif.ZSub(zA, total)), "forwarded-amount-is-A-minus-fees")
	verif.Assert(ta.DestinationAmount().IsPositive(), "forwarded-amount-positive")
	verif.Assert(ta.SourceAmount().Equal(A), "source-amount-untouched")
	verif.Assert(verif.ZEq(verif.ZOf(l.Bal(core.ModuleAddress, "uusdc")), verif.ZSub(zA, total)), "orbiter-balance-is-A-minus-fees")
}

// H_C04_compute_amount: the exported kernel on its own, incl. negative and zero amounts.
func H_C04_compute_amount() {
	A := verif.BigInt("A")
	bp := verif.Uint64("bps")
	got, err := actionctrl.ComputeFeeAmount(A, bp)
	prod := verif.ZMul(verif.ZOf(A), verif.ZU64(bp))
	lim := verif.ZPow2(256)
	over := !verif.ZLt(prod, lim) || !verif.ZLt(verif.ZSub(verif.ZInt(0), prod), lim)
	if err != nil {
		verif.Cover("overflow")
		verif.Assert(over, "error-only-on-overflow")
		verif.Assert(got.IsZero(), "zero-on-error")
		return
	}
	verif.Assert(!over, "overflow-is-an-error")
	if !A.IsPositive() || bp == 0 {
		verif.Cover("non-positive")
		verif.Assert(got.IsZero(), "non-positive-product-gives-zero")
		return
	}
	verif.Cover("positive")
	c := verif.ZOf(got)
	verif.Assert(verif.ZLe(verif.ZMul(verif.ZInt(10000), c), prod) && verif.ZLt(prod, verif.ZMul(verif.ZInt(10000), verif.ZAdd(c, verif.ZInt(1)))), "fee-is-floor")
}

// H_C04_count: the entry-count limit on its own: lists of 0..8 plain entries (bps any value in [1,100], amounts large enough
// for every fee to be positive): refused iff more than five entries; otherwise every entry is credited.
func H_C04_count() {
	ctx := context.Background()
	l := &Ledger{}
	fc, err := actionctrl.NewFeeController(nopLogger{}, &events{}, l)
	must(err)
	A := verif.BigInt("A")
	verif.Assume(A.GT(math.NewInt(1000000)) && A.LT(math.NewIntWithDecimal(1, 70)))
	ta, err := core.NewTransferAttributes(core.PROTOCOL_IBC, "channel-0", "uusdc", A)
	must(err)
	l.Set(core.ModuleAddress, "uusdc", A)
	n := verif.Choose("n", 9)
	b := verif.Uint32("bps")
	verif.Assume(b >= 1 && b <= 100)
	infos := make([]*actiontypes.FeeInfo, 0, 8)
	for i := 0; i < n; i++ {
		r := feeR1
		if i%2 == 1 {
			r = feeR2
		}
		infos = append(infos, &actiontypes.FeeInfo{Recipient: r.String(), FeeType: &actiontypes.FeeInfo_BasisPoints_{BasisPoints: &actiontypes.FeeInfo_BasisPoints{Value: b}}})
	}
	action := &core.Action{Id: core.ACTION_FEE}
	must(action.SetAttributes(&actiontypes.FeeAttributes{FeesInfo: infos}))
	err = fc.HandlePacket(ctx, &types.ActionPacket{TransferAttributes: ta, Action: action})
	if err != nil {
		verif.Cover("refused")
		verif.Assert(n > actiontypes.MaxFeeRecipients, "up-to-five-entries-are-accepted")
		verif.Assert(len(l.sends) == 0, "nothing-paid-when-refused")
		return
	}
	verif.Cover("accepted")
	verif.Assert(n <= actiontypes.MaxFeeRecipients, "more-than-five-entries-are-refused")
	fee := verif.ZFloorDiv(verif.ZMul(verif.ZOf(A), verif.ZU64(uint64(b))), 10000)
	n1, n2 := int64((n+1)/2), int64(n/2)
	verif.Assert(verif.ZEq(verif.ZOf(l.Bal(feeR1, "uusdc")), verif.ZMul(verif.ZInt(n1), fee)) && verif.ZEq(verif.ZOf(l.Bal(feeR2, "uusdc")), verif.ZMul(verif.ZInt(n2), fee)), "every-entry-is-credited")
	verif.Assert(verif.ZEq(verif.ZOf(ta.DestinationAmount()), verif.ZSub(verif.ZOf(A), verif.ZMul(verif.ZInt(int64(n)), fee))), "forwarded-amount-is-A-minus-fees")
}
