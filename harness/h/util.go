package h

import (
	"cosmossdk.io/math"
	sdk "github.com/cosmos/cosmos-sdk/types"

	orbitertypes "github.com/noble-assets/orbiter/v2/types"
	actiontypes "github.com/noble-assets/orbiter/v2/types/controller/action"
	fwdtypes "github.com/noble-assets/orbiter/v2/types/controller/forwarding"
	"github.com/noble-assets/orbiter/v2/types/core"
)

func defaultGenesis() *orbitertypes.GenesisState { return orbitertypes.DefaultGenesisState() }

func fwdtypesNewCCTP(domain uint32) (*core.Forwarding, error) {
	return fwdtypes.NewCCTPForwarding(domain, []byte{1, 2, 3}, nil, nil)
}

func fwdtypesNewHyp(domain uint32) (*core.Forwarding, error) {
	return fwdtypes.NewHyperlaneForwarding(make([]byte, 32), domain, make([]byte, 32), nil, "", math.ZeroInt(), sdk.Coin{Denom: "uusdc", Amount: math.ZeroInt()}, nil)
}

func fwdtypesNewInternal() (*core.Forwarding, error) { return fwdtypes.NewInternalForwarding(user1.String()) }

// feeAction: one basis-point fee entry to feeR1.
func feeAction(bps uint32) *core.Action {
	b, err := actiontypes.NewFeeBasisPoints(bps)
	must(err)
	fi, err := actiontypes.NewFeeInfo(feeR1.String(), b)
	must(err)
	a, err := actiontypes.NewFeeAction(fi)
	must(err)
	return a
}
