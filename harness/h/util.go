package h

import (
	orbitertypes "github.com/noble-assets/orbiter/v2/types"
)

func defaultGenesis() *orbitertypes.GenesisState { return orbitertypes.DefaultGenesisState() }
