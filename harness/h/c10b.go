package h

import (
	authtypes "github.com/cosmos/cosmos-sdk/x/auth/types"

	orbiter "github.com/noble-assets/orbiter/v2"
	modulev1 "github.com/noble-assets/orbiter/v2/api/module/v1"
	adaptercomp "github.com/noble-assets/orbiter/v2/keeper/component/adapter"
	adaptertypes "github.com/noble-assets/orbiter/v2/types/component/adapter"
	"github.com/noble-assets/orbiter/v2/zzverif/verif"
)

func init() { reg("H_C10_configured", H_C10_configured) }

// H_C10_configured: "the configured authority" is what the application configuration names. The module is built through
// its own provider (depinject.go: ProvideModule) from a configuration whose authority is a bech32 address or a module
// name; the account that may change state is exactly the one the configuration denotes, nobody else (in particular not
// a default such as the governance account when another authority is configured).
func H_C10_configured() {
	ctx, svc := verif.NewEnv()
	sctx := verif.SDKContext(ctx)
	k := verif.Choose("configured-authority", 3)
	cfg := []string{authorityAddr.String(), "authority", "gov"}[k]
	want := []string{authorityAddr.String(), authtypes.NewModuleAddress("authority").String(), authtypes.NewModuleAddress("gov").String()}[k]
	out := orbiter.ProvideModule(orbiter.ModuleInputs{
		Config: &modulev1.Module{Authority: cfg}, Codec: newCodec(), AddressCodec: addrCodec{}, Logger: nopLogger{},
		EventService: &events{}, StoreService: svc, BankKeeper: &Ledger{},
	})
	verif.Assert(out.Keeper.Authority() == want, "keeper-authority-is-the-configured-one")
	ms := adaptercomp.NewMsgServer(out.Keeper.Adapter(), out.Keeper)
	candidates := []string{authorityAddr.String(), authtypes.NewModuleAddress("authority").String(), authtypes.NewModuleAddress("gov").String(), user1.String()}
	signer := candidates[verif.Choose("signer", len(candidates))]
	d0 := verif.StateDigest(sctx)
	_, err := ms.UpdateParams(sctx, &adaptertypes.MsgUpdateParams{Signer: signer, Params: adaptertypes.Params{MaxPassthroughPayloadSize: 9}})
	if signer == want {
		verif.Cover("configured-authority-signs")
		verif.Assert(err == nil, "configured-authority-succeeds")
	} else {
		verif.Cover("someone-else-signs")
		verif.Assert(err != nil, "non-authority-signer-is-refused")
		verif.Assert(verif.StateDigest(sctx) == d0, "refused-message-leaves-state-unchanged")
	}
}
