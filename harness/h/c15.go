package h

import (
	adaptertypes "github.com/noble-assets/orbiter/v2/types/component/adapter"
	"cosmossdk.io/math"
	codectypes "github.com/cosmos/cosmos-sdk/codec/types"
	sdk "github.com/cosmos/cosmos-sdk/types"

	adapterctrl "github.com/noble-assets/orbiter/v2/controller/adapter"
	actiontypes "github.com/noble-assets/orbiter/v2/types/controller/action"
	fwdtypes "github.com/noble-assets/orbiter/v2/types/controller/forwarding"
	"github.com/noble-assets/orbiter/v2/types/core"
	"github.com/noble-assets/orbiter/v2/zzverif/verif"
)

func init() {
	reg("H_C15_validate", H_C15_validate)
	reg("H_C15_ids", H_C15_ids)
	reg("H_C15_parse", H_C15_parse)
}

func wellFormed(p *core.Payload) bool {
	if p == nil || p.Forwarding == nil || p.Forwarding.Attributes == nil {
		return false
	}
	if p.Forwarding.ProtocolId < 1 || p.Forwarding.ProtocolId > 4 {
		return false
	}
	for i, a := range p.PreActions {
		if a == nil || a.Attributes == nil || a.Id < 1 || a.Id > 2 {
			return false
		}
		for j := 0; j < i; j++ {
			if p.PreActions[j].Id == a.Id {
				return false
			}
		}
	}
	return true
}

// H_C15_validate: over arbitrary decoded shapes, the validation that ParsePayload applies accepts exactly the well-formed
// payloads (one forwarding with a supported identifier and attributes; non-nil actions with supported, distinct identifiers
// and attributes).
func H_C15_validate() {
	p := anyShapePayload()
	err := p.Validate()
	if err == nil {
		verif.Cover("accepted")
		verif.Assert(wellFormed(p), "accepted-payload-is-well-formed")
	} else {
		verif.Cover("refused")
		verif.Assert(!wellFormed(p), "well-formed-payload-is-accepted")
	}
}

// H_C15_ids: lists of 0..3 actions with arbitrary identifiers: accepted iff every identifier is supported and they are
// pairwise distinct (wherever the repetition sits).
func H_C15_ids() {
	f, err := fwdtypes.NewInternalForwarding(user1.String())
	must(err)
	p := &core.Payload{Forwarding: f}
	n := verif.Choose("actions", 4)
	for i := 0; i < n; i++ {
		a := &core.Action{Id: core.ActionID(verif.Int32("action-id"))}
		must(a.SetAttributes(&actiontypes.FeeAttributes{}))
		p.PreActions = append(p.PreActions, a)
	}
	err = p.Validate()
	if err == nil {
		verif.Cover("accepted")
		verif.Assert(wellFormed(p), "accepted-payload-has-distinct-supported-identifiers")
	} else {
		verif.Cover("refused")
		verif.Assert(!wellFormed(p), "payload-with-distinct-supported-identifiers-is-accepted")
	}
}

// H_C15_parse: the root-key gate, the round trip of constructor-built payloads, and purity of parsing.
func H_C15_parse() {
	parser, err := adapterctrl.NewIBCParser(newCodec())
	must(err)
	// a payload built through the public constructors
	var f *core.Forwarding
	route := verif.Choose("route", 3)
	pt := make([]byte, verif.Choose("passthrough", 3))
	switch route {
	case routeCCTP:
		f, err = fwdtypes.NewCCTPForwarding(verif.Uint32("domain"), []byte{1, 2, 3}, [][]byte{nil, {9}}[verif.Choose("caller", 2)], pt)
	case routeHyp:
		f, err = fwdtypes.NewHyperlaneForwarding(make([]byte, 32), verif.Uint32("domain"), make([]byte, 32), nil, "0x00", math.NewInt(7), sdk.NewInt64Coin("uusdc", 3), pt)
	default:
		f, err = fwdtypes.NewInternalForwarding(user1.String())
	}
	if err != nil {
		verif.Cover("constructor-refused")
		return
	}
	var acts []*core.Action
	nf := verif.Choose("fees", 3)
	if nf > 0 {
		infos := make([]*actiontypes.FeeInfo, 0, 2)
		for i := 0; i < nf; i++ {
			if i == 0 {
				b, err := actiontypes.NewFeeBasisPoints(100)
				must(err)
				fi, err := actiontypes.NewFeeInfo(feeR1.String(), b)
				must(err)
				infos = append(infos, fi)
			} else {
				am, err := actiontypes.NewFeeAmount("25")
				must(err)
				fi, err := actiontypes.NewFeeInfo(feeR2.String(), am)
				must(err)
				infos = append(infos, fi)
			}
		}
		a, err := actiontypes.NewFeeAction(infos...)
		must(err)
		acts = append(acts, a)
	}
	// attributes whose type is known to the codec but NOT registered for the position they are in
	wrong := verif.Choose("wrong-attribute-type", 7)
	wrongAct := func() *core.Action {
		a, err := core.NewAction(core.ACTION_SWAP, &fwdtypes.InternalAttributes{Recipient: user1.String()})
		must(err)
		return a
	}
	switch wrong {
	case 1:
		acts = []*core.Action{wrongAct(), feeAction(100)}
	case 2:
		acts = []*core.Action{feeAction(100), wrongAct()}
	case 3:
		acts = []*core.Action{wrongAct()}
	case 4:
		any, err := codectypes.NewAnyWithValue(&actiontypes.FeeAttributes{})
		must(err)
		f = &core.Forwarding{ProtocolId: f.ProtocolId, Attributes: any, PassthroughPayload: f.PassthroughPayload}
	case 5:
		// a type the codec knows for ANOTHER interface of the same module (a transaction message) as action attributes
		a, err := core.NewAction(core.ACTION_FEE, &adaptertypes.MsgUpdateParams{Signer: "someone"})
		must(err)
		acts = []*core.Action{a}
	case 6:
		// ... and as forwarding attributes
		any, err := codectypes.NewAnyWithValue(&adaptertypes.MsgUpdateParams{Signer: "someone"})
		must(err)
		f = &core.Forwarding{ProtocolId: f.ProtocolId, Attributes: any, PassthroughPayload: f.PassthroughPayload}
	}
	pl, err := core.NewPayload(f, acts...)
	must(err)

	kind := verif.Choose("memo", 9)
	extra, tail := 0, 0
	var memo string
	switch kind {
	case 0:
		extra = verif.Choose("extra-root-keys", 3)
		if extra == 0 {
			tail = verif.Choose("bytes-after-the-document", 5)
		}
		if extra == 0 && tail == 0 {
			// the root key spelled in another letter case (alone, or next to the real one): not the key 'orbiter'
			extra = -verif.Choose("root-key-in-another-letter-case", 4)
		}
		memo = verif.EncodeMemoTail(&core.PayloadWrapper{Orbiter: pl}, extra, tail)
	default:
		memo = []string{"", "", "null", "[]", "{}", `{"orbiter":null}`, `{"orbiter":1}`, `{"other":{}}`, `{"orbiter":{},"orbiter2":{}}`}[kind]
	}
	got, perr := parser.ParsePayload([]byte(memo))
	if perr != nil {
		verif.Cover("refused")
		verif.Assert(!(kind == 0 && extra == 0 && wrong == 0 && tail == 0), "memo-of-a-constructor-built-payload-is-accepted")
		return
	}
	verif.Cover("accepted")
	verif.Assert(kind == 0 && extra == 0, "accepted-memo-is-a-single-orbiter-root-key-with-a-payload")
	verif.Assert(tail == 0 || tail == 4, "accepted-memo-is-one-json-document")
	verif.Assert(wrong == 0, "attributes-of-an-unregistered-type-are-refused")
	if !(kind == 0 && extra == 0 && wrong == 0) {
		return
	}
	verif.Assert(wellFormed(got), "accepted-payload-is-well-formed")
	// round trip: the parsed payload equals the one that was serialised
	samePayload(got, pl, "round-trip")
	// purity: parsing the same memo again gives the same payload
	again, perr2 := parser.ParsePayload([]byte(memo))
	verif.Assert(perr2 == nil, "parsing-is-repeatable")
	if perr2 == nil {
		samePayload(again, got, "repeat")
	}
}

func samePayload(a, b *core.Payload, label string) {
	verif.Assert(a.Forwarding.ProtocolId == b.Forwarding.ProtocolId, label+"-protocol-id")
	verif.Assert(string(a.Forwarding.PassthroughPayload) == string(b.Forwarding.PassthroughPayload), label+"-passthrough")
	fa, e1 := a.Forwarding.CachedAttributes()
	fb, e2 := b.Forwarding.CachedAttributes()
	verif.Assert(e1 == nil && e2 == nil, label+"-attributes-present")
	if e1 != nil || e2 != nil {
		return
	}
	switch x := fa.(type) {
	case *fwdtypes.CCTPAttributes:
		y, ok := fb.(*fwdtypes.CCTPAttributes)
		verif.Assert(ok && x.DestinationDomain == y.DestinationDomain && string(x.MintRecipient) == string(y.MintRecipient) && string(x.DestinationCaller) == string(y.DestinationCaller), label+"-cctp-attributes")
	case *fwdtypes.HypAttributes:
		y, ok := fb.(*fwdtypes.HypAttributes)
		verif.Assert(ok && x.DestinationDomain == y.DestinationDomain && string(x.TokenId) == string(y.TokenId) && string(x.Recipient) == string(y.Recipient) &&
			x.CustomHookMetadata == y.CustomHookMetadata && x.GasLimit.Equal(y.GasLimit) && x.MaxFee.Denom == y.MaxFee.Denom && x.MaxFee.Amount.Equal(y.MaxFee.Amount), label+"-hyperlane-attributes")
	case *fwdtypes.InternalAttributes:
		y, ok := fb.(*fwdtypes.InternalAttributes)
		verif.Assert(ok && x.Recipient == y.Recipient, label+"-internal-attributes")
	default:
		verif.Assert(false, label+"-registered-forwarding-type")
	}
	verif.Assert(len(a.PreActions) == len(b.PreActions), label+"-actions-count")
	if len(a.PreActions) != len(b.PreActions) {
		return
	}
	for i := range a.PreActions {
		verif.Assert(a.PreActions[i].Id == b.PreActions[i].Id, label+"-action-id")
		xa, e1 := a.PreActions[i].CachedAttributes()
		xb, e2 := b.PreActions[i].CachedAttributes()
		verif.Assert(e1 == nil && e2 == nil, label+"-action-attributes-present")
		if e1 != nil || e2 != nil {
			continue
		}
		ya, ok1 := xa.(*actiontypes.FeeAttributes)
		yb, ok2 := xb.(*actiontypes.FeeAttributes)
		verif.Assert(ok1 && ok2 && len(ya.FeesInfo) == len(yb.FeesInfo), label+"-fee-attributes")
		if !(ok1 && ok2) || len(ya.FeesInfo) != len(yb.FeesInfo) {
			continue
		}
		for k := range ya.FeesInfo {
			verif.Assert(ya.FeesInfo[k].Recipient == yb.FeesInfo[k].Recipient, label+"-fee-recipient")
			verif.Assert(ya.FeesInfo[k].GetBasisPoints().GetValue() == yb.FeesInfo[k].GetBasisPoints().GetValue() && ya.FeesInfo[k].GetAmount().GetValue() == yb.FeesInfo[k].GetAmount().GetValue(), label+"-fee-value")
		}
	}
}
