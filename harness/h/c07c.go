package h

// Harnesses added in the second session (eleventh batch of seeded changes).

import (
	"cosmossdk.io/math"
	sdk "github.com/cosmos/cosmos-sdk/types"
	transfertypes "github.com/cosmos/ibc-go/v8/modules/apps/transfer/types"
	ibcexported "github.com/cosmos/ibc-go/v8/modules/core/exported"

	forwardercomp "github.com/noble-assets/orbiter/v2/keeper/component/forwarder"
	adaptertypes "github.com/noble-assets/orbiter/v2/types/component/adapter"
	forwardertypes "github.com/noble-assets/orbiter/v2/types/component/forwarder"
	"github.com/noble-assets/orbiter/v2/types/core"
	"github.com/noble-assets/orbiter/v2/zzverif/verif"
)

func init() {
	reg("H_C07_abort", H_C07_abort)
	reg("H_C08_discarded", H_C08_discarded)
	reg("H_C03_fees2", H_C03_fees2)
	reg("H_C16_sequence", H_C16_sequence)
}

// H_C07_abort: the wrapped application may ABORT (out of gas while handling the packet is a panic that baseapp turns into
// a failed transaction, which a relayer submits again). For traffic that is not addressed to the orbiter the outcome must
// be the application's own: when it aborts, the receive aborts — the middleware must not turn the abort into an
// acknowledgement (an error acknowledgement is written to state and refunds the transfer for good).
func H_C07_abort() {
	w := NewWorld(false)
	w.App.panics = true
	w.L.Set(escrow, nativeDenom, math.NewInt(1000000))
	d := transfertypes.FungibleTokenPacketData{Denom: voucherOnSender, Amount: "1000", Sender: "sender"}
	d.Receiver = []string{user2.String(), "", "noble1nope"}[verif.Choose("receiver", 3)]
	if verif.Bool("memo-with-orbiter-payload") {
		d.Memo = internalPayloadMemo(user1.String())
	}
	var ack ibcexported.Acknowledgement
	aborted := verif.Aborts(func() { ack = w.MW.OnRecvPacket(w.Ctx, packetOf(verif.EncodeICS20(d)), relayerAddr) })
	verif.Cover("not-for-orbiter")
	verif.Assert(w.App.calls == 1, "wrapped-application-called-exactly-once")
	if w.App.panicked {
		verif.Cover("application-aborted")
		verif.Assert(aborted, "abort-of-the-wrapped-application-is-not-turned-into-an-acknowledgement")
	} else {
		verif.Assert(!aborted && ack == w.App.lastAck, "acknowledgement-is-the-wrapped-applications")
	}
}

// H_C08_discarded: pause state changes only through SUCCESSFUL messages — a pause / unpause message that succeeds inside a
// transaction which is discarded afterwards (a later message of it fails; a gas simulation) changes nothing: neither the
// stored sets nor what transfers and queries observe (copies of the pause state kept in memory would survive the
// rollback).
func H_C08_discarded() {
	w := NewWorld(false)
	ref := &pauseRef{}
	route := verif.Choose("probe-route", 3)
	dp := []core.ProtocolID{core.PROTOCOL_CCTP, core.PROTOCOL_HYPERLANE, core.PROTOCOL_INTERNAL}[route]
	name := protoNames[dp-1]
	cp := []string{"5", "5", "noble"}[route]
	fw := w.K.Forwarder()
	if verif.Bool("protocol-paused-before") {
		must(fw.SetPausedProtocol(w.Ctx, dp))
		ref.prot[dp] = true
	}
	if verif.Bool("pair-paused-before") {
		must(fw.SetPausedCrossChain(w.Ctx, core.CrossChainID{ProtocolId: dp, CounterpartyId: cp}))
		ref.cc = append(ref.cc, ccPair{dp, cp})
	}
	verif.Cover("pre-state-built")
	ms := forwardercomp.NewMsgServer(fw, w.K)
	signer := authorityAddr.String()
	kind := verif.Choose("msg-kind", 4)
	_ = verif.Atomically(w.Ctx, func(ctx sdk.Context) error {
		var e error
		switch kind {
		case 0:
			_, e = ms.PauseProtocol(ctx, &forwardertypes.MsgPauseProtocol{Signer: signer, ProtocolId: name})
		case 1:
			_, e = ms.UnpauseProtocol(ctx, &forwardertypes.MsgUnpauseProtocol{Signer: signer, ProtocolId: name})
		case 2:
			_, e = ms.PauseCrossChains(ctx, &forwardertypes.MsgPauseCrossChains{Signer: signer, ProtocolId: name, CounterpartyIds: []string{cp}})
		default:
			_, e = ms.UnpauseCrossChains(ctx, &forwardertypes.MsgUnpauseCrossChains{Signer: signer, ProtocolId: name, CounterpartyIds: []string{cp}})
		}
		if e == nil {
			verif.Cover("message-succeeded-in-a-discarded-transaction")
			return errRevert
		}
		return e
	})
	// the discarded transaction may also have READ the state (a simulation queries what it wrote)
	checkQueries(w, ref, []core.ProtocolID{dp})
	probe(w, ref, route)
}

// H_C03_fees2: the failure bits of H_C03_faults with TWO fee entries (a payment that fails may be followed by one that
// succeeds: the transfer is refused all the same).
func H_C03_fees2() { H_C03_faults() }

// H_C16_sequence: whether a token is "returning over the channel it left on" is a function of THIS packet's source port and
// channel. After a legitimate packet of transfer/channel-7/uusdc over channel-7, the same denomination string arrives
// over another channel (for that channel the token is native to the SENDER: ICS-20 mints a voucher) — and the other way
// round. (Adapters and parsers are long-lived: nothing remembered about a denomination may replace the check.)
func H_C16_sequence() {
	w := NewWorld(false)
	w.L.Set(escrow, nativeDenom, math.NewInt(1000000))
	chans := []string{"channel-7", "channel-8"}
	first := verif.Choose("first-source-channel", 2)
	denom := "transfer/" + chans[verif.Choose("voucher-prefix-channel", 2)] + "/uusdc"
	send := func(src string, seq uint64) ibcexported.Acknowledgement {
		d := transfertypes.FungibleTokenPacketData{Denom: denom, Amount: "1000", Sender: "sender", Receiver: core.ModuleAddress.String(), Memo: internalPayloadMemo(user1.String())}
		p := packetOf(verif.EncodeICS20(d))
		p.SourceChannel, p.Sequence = src, seq
		return w.MW.OnRecvPacket(w.Ctx, p, relayerAddr)
	}
	a1 := send(chans[first], 1)
	returning1 := denom == "transfer/"+chans[first]+"/uusdc"
	verif.Assert(a1.Success() == returning1, "first-packet-accepted-iff-returning-over-its-own-channel")
	w.Int.reqs = nil
	second := 1 - first
	returning2 := denom == "transfer/"+chans[second]+"/uusdc"
	// the gate itself (what the middleware asks the adapter before anything else happens): a packet that is not returning
	// over its own channel is not adapted into an orbiter packet — the forwarder's balance precondition would refuse it
	// later anyway, but by then the hooks have acted on the wrong coin
	ccID, err := core.NewCrossChainID(core.PROTOCOL_IBC, dstChannel)
	must(err)
	d2 := transfertypes.FungibleTokenPacketData{Denom: denom, Amount: "1000", Sender: "sender", Receiver: core.ModuleAddress.String(), Memo: internalPayloadMemo(user1.String())}
	ccp, err := adaptertypes.NewIBCCrossChainPacket(srcPort, chans[second], verif.EncodeICS20(d2))
	must(err)
	op, aerr := w.K.Adapter().AdaptPacket(w.Ctx, ccID, ccp)
	verif.Assert((aerr == nil && op != nil) == returning2, "adapter-accepts-iff-returning-over-this-packets-channel")
	a2 := send(chans[second], 2)
	if returning2 {
		verif.Cover("accepted")
		verif.Assert(a2.Success(), "returning-token-is-accepted-whatever-came-before")
	} else {
		verif.Cover("refused")
		verif.Assert(!a2.Success(), "token-not-returning-over-this-channel-is-refused-whatever-came-before")
		verif.Assert(len(w.Int.reqs) == 0, "refused-packet-is-not-forwarded")
	}
}
