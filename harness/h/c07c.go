package h

// Harnesses added in the second session (eleventh batch of seeded changes).

import (
	"cosmossdk.io/math"
	sdk "github.com/cosmos/cosmos-sdk/types"
	transfertypes "github.com/cosmos/ibc-go/v8/modules/apps/transfer/types"
	ibcexported "github.com/cosmos/ibc-go/v8/modules/core/exported"

	forwardercomp "github.com/noble-assets/orbiter/v2/keeper/component/forwarder"
	forwardertypes "github.com/noble-assets/orbiter/v2/types/component/forwarder"
	"github.com/noble-assets/orbiter/v2/types/core"
	"github.com/noble-assets/orbiter/v2/zzverif/verif"
)

func init() {
	reg("H_C07_abort", H_C07_abort)
	reg("H_C08_discarded", H_C08_discarded)
	reg("H_C03_fees2", H_C03_fees2)
}

// H_C07_abort: the wrapped application may ABORT (out of gas while handling the packet is a panic that baseapp turns into
// a failed transaction, which a relayer submits again). For traffic that is not addressed to the orbiter the outcome must
// be the application's own: when it aborts, the receive aborts — the middleware must not turn the abort into an
// acknowledgement (an error acknowledgement is written to state and refunds the transfer for good).
func H_C07_abort() {
	w := NewWorld(false)
	w.App.panics = true
	w.L.Set(escrow, nativeDenom, math.NewInt(1000000))
	d := transfertypes.FungibleTokenPacketData{Denom: voucherOnSender, Amount: "1000", Sender: "sender"}
	d.Receiver = []string{user2.String(), "", "noble1nope"}[verif.Choose("receiver", 3)]
	if verif.Bool("memo-with-orbiter-payload") {
		d.Memo = internalPayloadMemo(user1.String())
	}
	var ack ibcexported.Acknowledgement
	aborted := verif.Aborts(func() { ack = w.MW.OnRecvPacket(w.Ctx, packetOf(verif.EncodeICS20(d)), relayerAddr) })
	verif.Cover("not-for-orbiter")
	verif.Assert(w.App.calls == 1, "wrapped-application-called-exactly-once")
	if w.App.panicked {
		verif.Cover("application-aborted")
		verif.Assert(aborted, "abort-of-the-wrapped-application-is-not-turned-into-an-acknowledgement")
	} else {
		verif.Assert(!aborted && ack == w.App.lastAck, "acknowledgement-is-the-wrapped-applications")
	}
}

// H_C08_discarded: pause state changes only through SUCCESSFUL messages — a pause / unpause message that succeeds inside a
// transaction which is discarded afterwards (a later message of it fails; a gas simulation) changes nothing: neither the
// stored sets nor what transfers and queries observe (copies of the pause state kept in memory would survive the
// rollback).
func H_C08_discarded() {
	w := NewWorld(false)
	ref := &pauseRef{}
	route := verif.Choose("probe-route", 3)
	dp := []core.ProtocolID{core.PROTOCOL_CCTP, core.PROTOCOL_HYPERLANE, core.PROTOCOL_INTERNAL}[route]
	name := protoNames[dp-1]
	cp := []string{"5", "5", "noble"}[route]
	fw := w.K.Forwarder()
	if verif.Bool("protocol-paused-before") {
		must(fw.SetPausedProtocol(w.Ctx, dp))
		ref.prot[dp] = true
	}
	if verif.Bool("pair-paused-before") {
		must(fw.SetPausedCrossChain(w.Ctx, core.CrossChainID{ProtocolId: dp, CounterpartyId: cp}))
		ref.cc = append(ref.cc, ccPair{dp, cp})
	}
	verif.Cover("pre-state-built")
	ms := forwardercomp.NewMsgServer(fw, w.K)
	signer := authorityAddr.String()
	kind := verif.Choose("msg-kind", 4)
	_ = verif.Atomically(w.Ctx, func(ctx sdk.Context) error {
		var e error
		switch kind {
		case 0:
			_, e = ms.PauseProtocol(ctx, &forwardertypes.MsgPauseProtocol{Signer: signer, ProtocolId: name})
		case 1:
			_, e = ms.UnpauseProtocol(ctx, &forwardertypes.MsgUnpauseProtocol{Signer: signer, ProtocolId: name})
		case 2:
			_, e = ms.PauseCrossChains(ctx, &forwardertypes.MsgPauseCrossChains{Signer: signer, ProtocolId: name, CounterpartyIds: []string{cp}})
		default:
			_, e = ms.UnpauseCrossChains(ctx, &forwardertypes.MsgUnpauseCrossChains{Signer: signer, ProtocolId: name, CounterpartyIds: []string{cp}})
		}
		if e == nil {
			verif.Cover("message-succeeded-in-a-discarded-transaction")
			return errRevert
		}
		return e
	})
	// the discarded transaction may also have READ the state (a simulation queries what it wrote)
	checkQueries(w, ref, []core.ProtocolID{dp})
	probe(w, ref, route)
}

// H_C03_fees2: the failure bits of H_C03_faults with TWO fee entries (a payment that fails may be followed by one that
// succeeds: the transfer is refused all the same).
func H_C03_fees2() { H_C03_faults() }
