package h

import (
	"cosmossdk.io/math"

	forwardercomp "github.com/noble-assets/orbiter/v2/keeper/component/forwarder"
	forwardertypes "github.com/noble-assets/orbiter/v2/types/component/forwarder"
	fwdtypes "github.com/noble-assets/orbiter/v2/types/controller/forwarding"
	"github.com/noble-assets/orbiter/v2/types/core"
	"github.com/noble-assets/orbiter/v2/zzverif/verif"
)

func init() {
	reg("H_C17_many", H_C17_many)
	reg("H_C17_denoms", H_C17_denoms)
}

// H_C17_denoms: statistics of one route in several denominations (one amount entry per denomination, one count entry per
// route) and of several routes in one denomination: the export validates, initialises a fresh module and re-exports to
// the same genesis.
func H_C17_denoms() {
	w := NewWorld(false)
	n := 2 + verif.Choose("transfers", 2)
	for i := 0; i < n; i++ {
		route := 2 // the internal route carries any denomination
		denom := []string{nativeDenom, "ueure", "uother"}[verif.Choose("denom", 3)]
		if denom == nativeDenom {
			route = verif.Choose("route", 3)
		}
		must(transferViaIn(w, route, math.NewInt(int64(100+i)), verif.Bool("with-fee"), denom))
	}
	g := w.K.ExportGenesis(w.Ctx)
	verif.Assert(g.Validate() == nil, "exported-genesis-validates")
	if g.Validate() != nil {
		return
	}
	w2 := NewWorld(false)
	w2.K.InitGenesis(w2.Ctx, *g)
	sameGenesis(g, w2.K.ExportGenesis(w2.Ctx), "re-export")
	verif.Cover("exported")
}

// H_C17_many: a state larger than any default page: more paused pairs than one message may carry (two messages of 100
// and of 1..3 identifiers) and all four protocols paused. The export has every entry, validates, initialises a fresh
// module, and the re-initialised module still refuses the last pair.
func H_C17_many() {
	w := NewWorld(false)
	ms := forwardercomp.NewMsgServer(w.K.Forwarder(), w.K)
	extra := 1 + verif.Choose("second-message-size", 3)
	ids := make([]string, 0, 103)
	for i := 0; i < 100+extra; i++ {
		ids = append(ids, (&fwdtypes.CCTPAttributes{DestinationDomain: uint32(i)}).CounterpartyID())
	}
	_, err := ms.PauseCrossChains(w.Ctx, &forwardertypes.MsgPauseCrossChains{Signer: authorityAddr.String(), ProtocolId: "PROTOCOL_CCTP", CounterpartyIds: ids[:100]})
	must(err)
	_, err = ms.PauseCrossChains(w.Ctx, &forwardertypes.MsgPauseCrossChains{Signer: authorityAddr.String(), ProtocolId: "PROTOCOL_CCTP", CounterpartyIds: ids[100:]})
	must(err)
	for _, p := range []string{"PROTOCOL_IBC", "PROTOCOL_CCTP", "PROTOCOL_HYPERLANE", "PROTOCOL_INTERNAL"} {
		_, err = ms.PauseProtocol(w.Ctx, &forwardertypes.MsgPauseProtocol{Signer: authorityAddr.String(), ProtocolId: p})
		must(err)
	}
	g := w.K.ExportGenesis(w.Ctx)
	verif.Assert(len(g.ForwarderGenesis.PausedCrossChainIds) == 100+extra, "export-has-every-paused-crosschain")
	verif.Assert(len(g.ForwarderGenesis.PausedProtocolIds) == 4, "export-has-every-paused-protocol")
	verif.Assert(g.Validate() == nil, "exported-genesis-validates")
	w2 := NewWorld(false)
	w2.K.InitGenesis(w2.Ctx, *g)
	last := core.CrossChainID{ProtocolId: core.PROTOCOL_CCTP, CounterpartyId: ids[len(ids)-1]}
	paused, err := w2.K.Forwarder().IsCrossChainPaused(w2.Ctx, last)
	verif.Assert(err == nil && paused, "re-initialised-module-still-refuses-the-last-pair")
	sameGenesis(g, w2.K.ExportGenesis(w2.Ctx), "re-export")
	verif.Cover("exported")
}
