package h

import (
	"cosmossdk.io/math"
	"github.com/cosmos/cosmos-sdk/types/query"

	dispatchercomp "github.com/noble-assets/orbiter/v2/keeper/component/dispatcher"
	dispatchertypes "github.com/noble-assets/orbiter/v2/types/component/dispatcher"
	fwdtypes "github.com/noble-assets/orbiter/v2/types/controller/forwarding"
	"github.com/noble-assets/orbiter/v2/types/core"
	"github.com/noble-assets/orbiter/v2/zzverif/verif"
)

func init() {
	reg("H_C13_amounts", H_C13_amounts)
	reg("H_C13_counts", H_C13_counts)
	reg("H_C13_index_keys", H_C13_index_keys)
	reg("H_C13_paging", H_C13_paging)
	reg("H_C13_prefix_keys", H_C13_prefix_keys)
}

type statEntry struct {
	src, dst core.CrossChainID
	denom    string
	in, out  math.Int
	count    uint64
}

func sameID(a, b core.CrossChainID) bool {
	return a.ProtocolId == b.ProtocolId && a.CounterpartyId == b.CounterpartyId
}

// drawRoute: a (source, destination) pair as transfers record them: sources are IBC channels, destinations any of the three
// outgoing protocols with their textual counterparty.
func drawRoute() (core.CrossChainID, core.CrossChainID) {
	src := core.CrossChainID{ProtocolId: core.PROTOCOL_IBC, CounterpartyId: []string{"channel-0", "channel-1"}[verif.Choose("source-channel", verif.Bound("srcs"))]}
	var dst core.CrossChainID
	switch verif.Choose("destination-protocol", 3) {
	case 0:
		dst = core.CrossChainID{ProtocolId: core.PROTOCOL_CCTP, CounterpartyId: (&fwdtypes.CCTPAttributes{DestinationDomain: uint32(verif.Choose("domain", verif.Bound("doms")) * 7)}).CounterpartyID()}
	case 1:
		dst = core.CrossChainID{ProtocolId: core.PROTOCOL_HYPERLANE, CounterpartyId: (&fwdtypes.HypAttributes{DestinationDomain: uint32(verif.Choose("domain", verif.Bound("doms")) * 7)}).CounterpartyID()}
	default:
		dst = core.CrossChainID{ProtocolId: core.PROTOCOL_INTERNAL, CounterpartyId: fwdtypes.CounterpartyID}
	}
	return src, dst
}

// H_C13_amounts: an arbitrary small ledger of amount entries (also one-sided and zero entries), then every amounts query.
func H_C13_amounts() {
	w := NewWorld(false)
	d := w.K.Dispatcher()
	qs := dispatchercomp.NewQueryServer(d)
	var ledger []statEntry
	for i := 0; i < verif.Bound("entries"); i++ {
		if !verif.Bool("entry") {
			continue
		}
		e := statEntry{denom: []string{nativeDenom, "ibc/0AB1"}[verif.Choose("denom", 2)]}
		e.src, e.dst = drawRoute()
		e.in, e.out = verif.BigInt("incoming"), verif.BigInt("outgoing")
		verif.Assume(!e.in.IsNegative() && !e.out.IsNegative())
		dup := false
		for _, x := range ledger {
			if sameID(x.src, e.src) && sameID(x.dst, e.dst) && x.denom == e.denom {
				dup = true
			}
		}
		verif.Assume(!dup)
		must(d.SetDispatchedAmount(w.Ctx, &e.src, &e.dst, e.denom, dispatchertypes.AmountDispatched{Incoming: e.in, Outgoing: e.out}))
		ledger = append(ledger, e)
	}
	verif.Cover("ledger-built")

	// ---- direct lookup: returns the entry exactly when it is recorded and non-zero, with the recorded values ------------
	qsrc, qdst := drawRoute()
	qdenom := []string{nativeDenom, "ibc/0AB1"}[verif.Choose("query-denom", 2)]
	resp, err := qs.DispatchedAmounts(w.Ctx, &dispatchertypes.QueryDispatchedAmountsRequest{
		SourceProtocolId: protoNames[qsrc.ProtocolId-1], SourceCounterpartyId: qsrc.CounterpartyId,
		DestinationProtocolId: protoNames[qdst.ProtocolId-1], DestinationCounterpartyId: qdst.CounterpartyId, Denom: qdenom,
	})
	var want *statEntry
	for i := range ledger {
		x := &ledger[i]
		if sameID(x.src, qsrc) && sameID(x.dst, qdst) && x.denom == qdenom && (x.in.IsPositive() || x.out.IsPositive()) {
			want = x
		}
	}
	if want != nil {
		verif.Cover("direct-lookup-hit")
		verif.Assert(err == nil && resp != nil && len(resp.Amounts) == 1, "direct-lookup-returns-the-non-zero-entry")
		if err == nil && resp != nil && len(resp.Amounts) == 1 {
			g := resp.Amounts[0]
			verif.Assert(g.AmountDispatched.Incoming.Equal(want.in) && g.AmountDispatched.Outgoing.Equal(want.out), "direct-lookup-returns-the-recorded-totals")
			verif.Assert(sameID(*g.SourceId, qsrc) && sameID(*g.DestinationId, qdst) && g.Denom == qdenom, "direct-lookup-returns-the-queried-ids")
		}
	} else {
		verif.Cover("direct-lookup-miss")
		verif.Assert(err != nil, "direct-lookup-of-an-absent-or-zero-entry-is-not-found")
	}

	// ---- listings: exactly the entries whose source / destination protocol matches --------------------------------------
	check := func(got []*dispatchertypes.DispatchedAmountEntry, match func(statEntry) bool, label string) {
		n := 0
		for _, x := range ledger {
			if !match(x) {
				continue
			}
			n++
			found := 0
			for _, g := range got {
				if sameID(*g.SourceId, x.src) && sameID(*g.DestinationId, x.dst) && g.Denom == x.denom {
					found++
					verif.Assert(g.AmountDispatched.Incoming.Equal(x.in) && g.AmountDispatched.Outgoing.Equal(x.out), label+"-carries-the-recorded-totals")
				}
			}
			verif.Assert(found == 1, label+"-lists-every-matching-entry-exactly-once")
		}
		verif.Assert(len(got) == n, label+"-lists-no-foreign-entry")
	}
	qp := core.ProtocolID(1 + verif.Choose("query-protocol", 4))
	byDst, err := qs.DispatchedAmountsByDestinationProtocolID(w.Ctx, &dispatchertypes.QueryDispatchedAmountsByProtocolIDRequest{ProtocolId: protoNames[qp-1]})
	verif.Assert(err == nil, "by-destination-listing-succeeds")
	if err == nil {
		check(byDst.Amounts, func(x statEntry) bool { return x.dst.ProtocolId == qp }, "by-destination-listing")
	}
	bySrc, err := qs.DispatchedAmountsBySourceProtocolID(w.Ctx, &dispatchertypes.QueryDispatchedAmountsByProtocolIDRequest{ProtocolId: protoNames[qp-1]})
	verif.Assert(err == nil, "by-source-listing-succeeds")
	if err == nil {
		check(bySrc.Amounts, func(x statEntry) bool { return x.src.ProtocolId == qp }, "by-source-listing")
	}
}

// H_C13_counts: the same for the dispatch counts.
func H_C13_counts() {
	w := NewWorld(false)
	d := w.K.Dispatcher()
	qs := dispatchercomp.NewQueryServer(d)
	var ledger []statEntry
	for i := 0; i < verif.Bound("entries"); i++ {
		if !verif.Bool("entry") {
			continue
		}
		e := statEntry{}
		e.src, e.dst = drawRoute()
		e.count = verif.Uint64("count")
		dup := false
		for _, x := range ledger {
			if sameID(x.src, e.src) && sameID(x.dst, e.dst) {
				dup = true
			}
		}
		verif.Assume(!dup)
		must(d.SetDispatchedCounts(w.Ctx, &e.src, &e.dst, e.count))
		ledger = append(ledger, e)
	}
	verif.Cover("ledger-built")
	qsrc, qdst := drawRoute()
	resp, err := qs.DispatchedCounts(w.Ctx, &dispatchertypes.QueryDispatchedCountsRequest{
		SourceProtocolId: protoNames[qsrc.ProtocolId-1], SourceCounterpartyId: qsrc.CounterpartyId,
		DestinationProtocolId: protoNames[qdst.ProtocolId-1], DestinationCounterpartyId: qdst.CounterpartyId,
	})
	var want *statEntry
	for i := range ledger {
		x := &ledger[i]
		if sameID(x.src, qsrc) && sameID(x.dst, qdst) && x.count != 0 {
			want = x
		}
	}
	if want != nil {
		verif.Cover("direct-lookup-hit")
		verif.Assert(err == nil && resp != nil && len(resp.Counts) == 1 && resp.Counts[0].Count == want.count, "direct-lookup-returns-the-recorded-count")
	} else {
		verif.Cover("direct-lookup-miss")
		verif.Assert(err != nil, "direct-lookup-of-an-absent-or-zero-count-is-not-found")
	}
	check := func(got []*dispatchertypes.DispatchCountEntry, match func(statEntry) bool, label string) {
		n := 0
		for _, x := range ledger {
			if !match(x) {
				continue
			}
			n++
			found := 0
			for _, g := range got {
				if sameID(*g.SourceId, x.src) && sameID(*g.DestinationId, x.dst) {
					found++
					verif.Assert(g.Count == x.count, label+"-carries-the-recorded-count")
				}
			}
			verif.Assert(found == 1, label+"-lists-every-matching-entry-exactly-once")
		}
		verif.Assert(len(got) == n, label+"-lists-no-foreign-entry")
	}
	qp := core.ProtocolID(1 + verif.Choose("query-protocol", 4))
	byDst, err := qs.DispatchedCountsByDestinationProtocolID(w.Ctx, &dispatchertypes.QueryDispatchedCountsByProtocolIDRequest{ProtocolId: protoNames[qp-1]})
	verif.Assert(err == nil, "by-destination-listing-succeeds")
	if err == nil {
		check(byDst.Counts, func(x statEntry) bool { return x.dst.ProtocolId == qp }, "by-destination-listing")
	}
	bySrc, err := qs.DispatchedCountsBySourceProtocolID(w.Ctx, &dispatchertypes.QueryDispatchedCountsByProtocolIDRequest{ProtocolId: protoNames[qp-1]})
	verif.Assert(err == nil, "by-source-listing-succeeds")
	if err == nil {
		check(bySrc.Counts, func(x statEntry) bool { return x.src.ProtocolId == qp }, "by-source-listing")
	}
}

// H_C13_index_keys: for EVERY destination domain (symbolic uint32) the entry is found again under its destination protocol:
// the index key derived from the textual destination id is the destination's protocol, and the listing rebuilds the ids.
func H_C13_index_keys() {
	w := NewWorld(false)
	d := w.K.Dispatcher()
	dom := verif.Uint32("domain")
	src := core.CrossChainID{ProtocolId: core.PROTOCOL_IBC, CounterpartyId: "channel-0"}
	var dst core.CrossChainID
	if verif.Bool("hyperlane") {
		dst = core.CrossChainID{ProtocolId: core.PROTOCOL_HYPERLANE, CounterpartyId: (&fwdtypes.HypAttributes{DestinationDomain: dom}).CounterpartyID()}
	} else {
		dst = core.CrossChainID{ProtocolId: core.PROTOCOL_CCTP, CounterpartyId: (&fwdtypes.CCTPAttributes{DestinationDomain: dom}).CounterpartyID()}
	}
	must(d.SetDispatchedAmount(w.Ctx, &src, &dst, nativeDenom, dispatchertypes.AmountDispatched{Incoming: math.NewInt(5), Outgoing: math.NewInt(4)}))
	verif.Cover("stored")
	for p := core.ProtocolID(1); p <= 4; p++ {
		got, _, err := d.GetDispatchedAmountsByDestinationProtocolID(w.Ctx, p, nil)
		verif.Assert(err == nil, "by-destination-listing-succeeds")
		if p == dst.ProtocolId {
			verif.Assert(len(got) == 1, "entry-is-listed-under-its-destination-protocol")
			if len(got) == 1 {
				verif.Assert(sameID(*got[0].DestinationId, dst) && sameID(*got[0].SourceId, src) && got[0].Denom == nativeDenom, "listing-rebuilds-the-ids-it-was-stored-under")
			}
		} else {
			verif.Assert(len(got) == 0, "entry-is-not-listed-under-another-protocol")
		}
	}
}

// ---- paging -----------------------------------------------------------------------------------------------------------

type listedEntry struct {
	src, dst core.CrossChainID
	denom    string
}

func sameListed(a, b listedEntry) bool {
	return sameID(a.src, b.src) && sameID(a.dst, b.dst) && a.denom == b.denom
}

// listPage runs one of the four paginated listings with the given page request and returns the entries of the page.
func listPage(qs dispatchertypes.QueryServer, w *World, listing int, p core.ProtocolID, req *query.PageRequest) ([]listedEntry, *query.PageResponse, error) {
	var out []listedEntry
	name := protoNames[p-1]
	switch listing {
	case 0, 1:
		var r *dispatchertypes.QueryDispatchedAmountsResponse
		var err error
		if listing == 0 {
			r, err = qs.DispatchedAmountsByDestinationProtocolID(w.Ctx, &dispatchertypes.QueryDispatchedAmountsByProtocolIDRequest{ProtocolId: name, Pagination: req})
		} else {
			r, err = qs.DispatchedAmountsBySourceProtocolID(w.Ctx, &dispatchertypes.QueryDispatchedAmountsByProtocolIDRequest{ProtocolId: name, Pagination: req})
		}
		if err != nil {
			return nil, nil, err
		}
		for _, e := range r.Amounts {
			out = append(out, listedEntry{*e.SourceId, *e.DestinationId, e.Denom})
		}
		return out, r.Pagination, nil
	default:
		var r *dispatchertypes.QueryDispatchedCountsResponse
		var err error
		if listing == 2 {
			r, err = qs.DispatchedCountsByDestinationProtocolID(w.Ctx, &dispatchertypes.QueryDispatchedCountsByProtocolIDRequest{ProtocolId: name, Pagination: req})
		} else {
			r, err = qs.DispatchedCountsBySourceProtocolID(w.Ctx, &dispatchertypes.QueryDispatchedCountsByProtocolIDRequest{ProtocolId: name, Pagination: req})
		}
		if err != nil {
			return nil, nil, err
		}
		for _, e := range r.Counts {
			out = append(out, listedEntry{*e.SourceId, *e.DestinationId, ""})
		}
		return out, r.Pagination, nil
	}
}

// H_C13_paging: for any page size, following next-keys forwards or in reverse visits each matching entry exactly once, with
// a correct total; offset paging returns the corresponding slice of the full listing. Ledgers of concrete keys.
func H_C13_paging() {
	w := NewWorld(false)
	d := w.K.Dispatcher()
	qs := dispatchercomp.NewQueryServer(d)
	listing := verif.Choose("listing", 4)
	// a ledger of n entries to CCTP domains (matching) plus foreign entries to Hyperlane / from nowhere else
	n := verif.Choose("matching-entries", verif.Bound("entries")+1)
	var match []listedEntry
	srcs := []string{"channel-0", "channel-1", "channel-10", "channel-2"}
	for i := 0; i < n; i++ {
		src := core.CrossChainID{ProtocolId: core.PROTOCOL_IBC, CounterpartyId: srcs[i%len(srcs)]}
		dst := core.CrossChainID{ProtocolId: core.PROTOCOL_CCTP, CounterpartyId: (&fwdtypes.CCTPAttributes{DestinationDomain: uint32([]int{7, 0, 12, 3, 100}[i%5])}).CounterpartyID()}
		if listing < 2 {
			must(d.SetDispatchedAmount(w.Ctx, &src, &dst, nativeDenom, dispatchertypes.AmountDispatched{Incoming: math.NewInt(int64(10 + i)), Outgoing: math.NewInt(int64(5 + i))}))
			match = append(match, listedEntry{src, dst, nativeDenom})
		} else {
			must(d.SetDispatchedCounts(w.Ctx, &src, &dst, uint64(1+i)))
			match = append(match, listedEntry{src, dst, ""})
		}
	}
	if verif.Bool("foreign-entries") {
		src := core.CrossChainID{ProtocolId: core.PROTOCOL_IBC, CounterpartyId: "channel-0"}
		dst := core.CrossChainID{ProtocolId: core.PROTOCOL_HYPERLANE, CounterpartyId: "7"}
		must(d.SetDispatchedAmount(w.Ctx, &src, &dst, nativeDenom, dispatchertypes.AmountDispatched{Incoming: math.NewInt(1), Outgoing: math.NewInt(1)}))
		must(d.SetDispatchedCounts(w.Ctx, &src, &dst, 9))
	}
	// by-destination listings are asked for CCTP; by-source listings for IBC return the foreign entry too
	p := core.PROTOCOL_CCTP
	if listing == 1 || listing == 3 {
		p = core.PROTOCOL_IBC
	}
	full, _, err := listPage(qs, w, listing, p, nil)
	verif.Assert(err == nil, "unpaged-listing-succeeds")
	if err != nil {
		return
	}
	total := len(full)
	verif.Cover("ledger-built")

	limit := uint64(1 + verif.Choose("page-limit", verif.Bound("limits")))
	if verif.Bool("limit-beyond-the-default-page-size") {
		limit = uint64(100 + 50*verif.Choose("big-limit", 3)) // 100, 150, 200
	}
	reverse := verif.Choose("reverse", 2) == 1 // (concrete on every path: the paging summary needs a concrete request)
	if verif.Bool("offset-paging") {
		off := uint64(verif.Choose("offset", verif.Bound("entries")+2))
		page, resp, err := listPage(qs, w, listing, p, &query.PageRequest{Offset: off, Limit: limit, CountTotal: true, Reverse: reverse})
		verif.Assert(err == nil, "offset-page-succeeds")
		if err != nil {
			return
		}
		verif.Cover("offset-page")
		if off <= uint64(total) {
			verif.Assert(resp.Total == uint64(total), "count-total-is-the-number-of-matching-entries")
		}
		// the page is the corresponding slice of the full listing (in the requested direction)
		for k := range page {
			idx := int(off) + k
			if reverse {
				idx = total - 1 - idx
			}
			verif.Assert(idx >= 0 && idx < total && sameListed(page[k], full[idx]), "offset-page-is-the-slice-of-the-full-listing")
		}
		want := 0
		if int(off) < total {
			want = total - int(off)
			if uint64(want) > limit {
				want = int(limit)
			}
		}
		verif.Assert(len(page) == want, "offset-page-has-the-right-size")
		return
	}
	// follow next-keys
	var seen []listedEntry
	req := &query.PageRequest{Limit: limit, Reverse: reverse}
	for round := 0; round < verif.Bound("entries")+3; round++ {
		page, resp, err := listPage(qs, w, listing, p, req)
		verif.Assert(err == nil, "page-succeeds")
		if err != nil {
			return
		}
		verif.Assert(uint64(len(page)) <= limit, "page-respects-the-limit")
		seen = append(seen, page...)
		if resp == nil || len(resp.NextKey) == 0 {
			verif.Cover("walk-finished")
			break
		}
		req = &query.PageRequest{Key: resp.NextKey, Limit: limit, Reverse: reverse}
	}
	verif.Assert(len(seen) == total, "walk-visits-as-many-entries-as-match")
	for _, x := range full {
		c := 0
		for _, y := range seen {
			if sameListed(x, y) {
				c++
			}
		}
		verif.Assert(c == 1, "walk-visits-each-matching-entry-exactly-once")
	}
	for k := range seen {
		idx := k
		if reverse {
			idx = total - 1 - k
		}
		verif.Assert(idx < total && sameListed(seen[k], full[idx]), "walk-follows-the-store-order")
	}
	_ = match
}


// H_C13_prefix_keys: ledgers in which the key of one entry is a byte-prefix of another's (destination domains 1 and 10
// of one source; denominations uusdc and uusdcx of one route — the last key component is stored without a terminator):
// following next-keys, forwards and in reverse, visits each matching entry exactly once and ends.
func H_C13_prefix_keys() {
	w := NewWorld(false)
	d := w.K.Dispatcher()
	qs := dispatchercomp.NewQueryServer(d)
	listing := verif.Choose("listing", 4)
	src := core.CrossChainID{ProtocolId: core.PROTOCOL_IBC, CounterpartyId: "channel-0"}
	if listing < 2 {
		dst := core.CrossChainID{ProtocolId: core.PROTOCOL_CCTP, CounterpartyId: "7"}
		for i, denom := range []string{"uusdc", "uusdcx", "uusdd"} {
			must(d.SetDispatchedAmount(w.Ctx, &src, &dst, denom, dispatchertypes.AmountDispatched{Incoming: math.NewInt(int64(10 + i)), Outgoing: math.NewInt(int64(5 + i))}))
		}
	} else {
		for i, dom := range []string{"1", "10", "2"} {
			dst := core.CrossChainID{ProtocolId: core.PROTOCOL_CCTP, CounterpartyId: dom}
			must(d.SetDispatchedCounts(w.Ctx, &src, &dst, uint64(1+i)))
		}
	}
	p := core.PROTOCOL_CCTP
	if listing == 1 || listing == 3 {
		p = core.PROTOCOL_IBC
	}
	full, _, err := listPage(qs, w, listing, p, nil)
	verif.Assert(err == nil && len(full) == 3, "unpaged-listing-has-the-three-entries")
	if err != nil {
		return
	}
	limit := uint64(1 + verif.Choose("page-limit", 2))
	reverse := verif.Choose("reverse", 2) == 1
	var seen []listedEntry
	req := &query.PageRequest{Limit: limit, Reverse: reverse}
	finished := false
	for round := 0; round < 6; round++ {
		page, resp, err := listPage(qs, w, listing, p, req)
		verif.Assert(err == nil, "page-succeeds")
		if err != nil {
			return
		}
		seen = append(seen, page...)
		if resp == nil || len(resp.NextKey) == 0 {
			finished = true
			break
		}
		req = &query.PageRequest{Key: resp.NextKey, Limit: limit, Reverse: reverse}
	}
	once := finished && len(seen) == len(full)
	for _, x := range full {
		c := 0
		for _, y := range seen {
			if sameListed(x, y) {
				c++
			}
		}
		once = once && c == 1
	}
	if reverse {
		verif.Cover("reverse-walk")
		verif.Assert(once, "prefix-keys-reverse-walk-visits-each-entry-exactly-once-and-ends")
	} else {
		verif.Cover("forward-walk")
		verif.Assert(once, "prefix-keys-forward-walk-visits-each-entry-exactly-once-and-ends")
	}
}
