package h

import (
	"encoding/hex"

	"cosmossdk.io/math"
	sdk "github.com/cosmos/cosmos-sdk/types"

	forwardercomp "github.com/noble-assets/orbiter/v2/keeper/component/forwarder"
	"github.com/noble-assets/orbiter/v2/types"
	forwardertypes "github.com/noble-assets/orbiter/v2/types/component/forwarder"
	actiontypes "github.com/noble-assets/orbiter/v2/types/controller/action"
	fwdtypes "github.com/noble-assets/orbiter/v2/types/controller/forwarding"
	"github.com/noble-assets/orbiter/v2/types/core"
	"github.com/noble-assets/orbiter/v2/zzverif/verif"
)

func init() {
	reg("H_C05_cctp", H_C05_cctp)
	reg("H_C05_hyperlane", H_C05_hyperlane)
	reg("H_C05_internal", H_C05_internal)
	reg("H_C05_mismatch", H_C05_mismatch)
	reg("H_C05_actions", H_C05_actions)
	reg("H_C05_replace", H_C05_replace)
	reg("H_C05_sequence", H_C05_sequence)
}

// transfer attributes after some pre-actions: source coin A uusdc, destination coin D uusdc with 0 < D <= A, and the orbiter
// account holding exactly D (the forwarder's precondition).
func afterActions(w *World) (*core.TransferAttributes, math.Int, math.Int) {
	return afterActionsIn(w, nativeDenom)
}

func afterActionsIn(w *World, denom string) (*core.TransferAttributes, math.Int, math.Int) {
	A, D := verif.BigInt("A"), verif.BigInt("D")
	verif.Assume(D.IsPositive() && D.LTE(A))
	ta, err := core.NewTransferAttributes(core.PROTOCOL_IBC, "channel-0", denom, A)
	must(err)
	ta.SetDestinationAmount(D)
	w.L.Set(core.ModuleAddress, denom, D)
	return ta, A, D
}

// transferDenom: the transferred coin is uusdc or another Noble-native denomination; in the latter case the orbiter
// account may ALSO hold uusdc (only the incoming denomination is swept), so that a request built with a constant
// denomination instead of the transfer's own would find funds.
func transferDenom(w *World) string {
	denom := []string{nativeDenom, "ueure"}[verif.Choose("transfer-denom", 2)]
	return denom
}

func H_C05_cctp() {
	w := NewWorld(false)
	denom := transferDenom(w)
	ta, _, D := afterActionsIn(w, denom)
	if denom != nativeDenom && verif.Bool("orbiter-also-holds-uusdc") {
		w.L.Set(core.ModuleAddress, nativeDenom, D)
	}
	n := verif.Bound("bytes")
	attr := &fwdtypes.CCTPAttributes{DestinationDomain: verif.Uint32("domain"), MintRecipient: verif.Bytes("recipient", n), DestinationCaller: verif.Bytes("caller", n)}
	f := &core.Forwarding{ProtocolId: core.PROTOCOL_CCTP, PassthroughPayload: verif.Bytes("passthrough", 2)}
	must(f.SetAttributes(attr))
	err := w.K.Forwarder().HandlePacket(w.Ctx, &types.ForwardingPacket{TransferAttributes: ta, Forwarding: f})
	valid := attr.DestinationDomain != fwdtypes.CCTPNobleDomain && len(attr.MintRecipient) > 0 && denom == nativeDenom // (the CCTP model burns uusdc only)
	if err != nil {
		verif.Cover("refused")
		verif.Assert(!valid, "valid-cctp-forwarding-is-executed")
		verif.Assert(len(w.CCTP.reqs) == 0, "no-request-when-refused")
		return
	}
	verif.Cover("forwarded")
	verif.Assert(valid, "invalid-cctp-forwarding-is-refused")
	verif.Assert(len(w.CCTP.reqs) == 1 && len(w.Hyp.reqs) == 0 && len(w.Int.reqs) == 0, "exactly-one-request-on-the-cctp-route")
	if len(w.CCTP.reqs) != 1 {
		return
	}
	r := w.CCTP.reqs[0]
	verif.Assert(r.domain == attr.DestinationDomain, "cctp-destination-domain")
	verif.Assert(string(r.recipient) == string(attr.MintRecipient), "cctp-mint-recipient")
	verif.Assert(r.withCaller == (len(attr.DestinationCaller) > 0), "cctp-with-caller-iff-caller-given")
	verif.Assert(string(r.caller) == string(attr.DestinationCaller), "cctp-destination-caller")
	verif.Assert(r.burnToken == denom, "cctp-burn-token-is-the-post-action-denom")
	verif.Assert(r.amount.Equal(D), "cctp-amount-is-the-post-action-amount")
	verif.Assert(r.from == core.ModuleAddress.String(), "cctp-sender-is-the-orbiter-account")
}

// hexOf renders 32 bytes the way the bridge names a token id (the same library routine, so the engine sees identical terms)
func hexOf(b []byte) string {
	var t [32]byte
	for i := 0; i < 32; i++ {
		t[i] = b[i]
	}
	return "0x" + hex.EncodeToString(t[:])
}

func H_C05_hyperlane() {
	w := NewWorld(false)
	ta, _, D := afterActions(w)
	n := verif.Bound("bytes")
	// domains: one-digit and ten-digit symbolic ranges (the decimal rendering forks on the digit count) and the two refused ones
	var dom uint32
	switch verif.Choose("domain-class", 3+verif.Bound("bigDomains")) {
	case 0:
		dom = verif.Uint32("domain")
		verif.Assume(dom < 10)
	case 1:
		dom = fwdtypes.HypNobleMainnetDomain
	case 2:
		dom = fwdtypes.HypNobleTestnetDomain
	case 3:
		dom = verif.Uint32("domain")
		verif.Assume(dom >= 1000000000)
	}
	var hook []byte
	if verif.Bound("hookSym") > 0 {
		hook = verif.Bytes("hook", n)
	} else {
		hook = [][]byte{nil, make([]byte, 32), {1, 2, 3, 4, 5}}[verif.Choose("hook", 3)]
	}
	attr := &fwdtypes.HypAttributes{
		TokenId: verif.Bytes("token", n), DestinationDomain: dom, Recipient: verif.Bytes("recipient", n),
		CustomHookId: hook, GasLimit: math.ZeroInt(), MaxFee: sdk.Coin{Denom: "uusdc", Amount: math.ZeroInt()},
	}
	meta := ""
	w.Hyp.tokenKnown, w.Hyp.originDenom = true, nativeDenom
	// the remaining dimensions are drawn only when the byte fields are well-formed (otherwise the refusal is already decided)
	if len(attr.TokenId) == 32 && len(attr.Recipient) == 32 && (len(attr.CustomHookId) == 0 || len(attr.CustomHookId) == 32) {
		meta = []string{"", "0x", "0x00ff", "0xzz", "00ff", "0x0", "0", "x"}[verif.Choose("metadata", 8)]
		attr.CustomHookMetadata = meta
		attr.GasLimit = verif.BigInt("gas")
		attr.MaxFee = sdk.Coin{Denom: []string{"uusdc", "", "!!"}[verif.Choose("maxfee-denom", 3)], Amount: verif.BigInt("maxfee")}
		w.Hyp.tokenKnown = verif.Bool("token-registered")
		w.Hyp.originDenom = []string{nativeDenom, "uother"}[verif.Choose("token-denom", 2)]
	}
	f := &core.Forwarding{ProtocolId: core.PROTOCOL_HYPERLANE}
	must(f.SetAttributes(attr))
	err := w.K.Forwarder().HandlePacket(w.Ctx, &types.ForwardingPacket{TransferAttributes: ta, Forwarding: f})
	metaOK := meta == "" || meta == "0x" || meta == "0x00ff"
	// a non-zero max fee must be a valid coin (the bridge turns it into sdk.Coins)
	feeOK := attr.MaxFee.Amount.IsZero() || (attr.MaxFee.Denom == "uusdc" && attr.MaxFee.Amount.IsPositive())
	wellFormed := feeOK && len(attr.TokenId) == 32 && len(attr.Recipient) == 32 && (len(attr.CustomHookId) == 0 || len(attr.CustomHookId) == 32) &&
		attr.DestinationDomain != fwdtypes.HypNobleMainnetDomain && attr.DestinationDomain != fwdtypes.HypNobleTestnetDomain && metaOK
	if wellFormed && len(w.Hyp.queries) > 0 {
		verif.Assert(w.Hyp.queries[0] == hexOf(attr.TokenId), "hyperlane-token-query-names-the-payload-token")
	}
	if err != nil {
		verif.Cover("refused")
		verif.Assert(len(w.Hyp.reqs) == 0, "no-request-when-refused")
		verif.Assert(!(wellFormed && w.Hyp.tokenKnown && w.Hyp.originDenom == nativeDenom), "valid-hyperlane-forwarding-is-executed")
		return
	}
	verif.Cover("forwarded")
	verif.Assert(wellFormed, "malformed-hyperlane-attributes-are-refused")
	verif.Assert(w.Hyp.tokenKnown && w.Hyp.originDenom == nativeDenom, "token-must-exist-and-carry-the-forwarded-denom")
	verif.Assert(len(w.Hyp.reqs) == 1 && len(w.CCTP.reqs) == 0 && len(w.Int.reqs) == 0, "exactly-one-request-on-the-hyperlane-route")
	if len(w.Hyp.reqs) != 1 {
		return
	}
	r := w.Hyp.reqs[0]
	verif.Assert(r.Sender == core.ModuleAddress.String(), "hyperlane-sender-is-the-orbiter-account")
	verif.Assert(string(r.TokenId[:]) == string(attr.TokenId), "hyperlane-token")
	verif.Assert(r.DestinationDomain == attr.DestinationDomain, "hyperlane-domain")
	verif.Assert(string(r.Recipient[:]) == string(attr.Recipient), "hyperlane-recipient")
	verif.Assert(r.Amount.Equal(D), "hyperlane-amount-is-the-post-action-amount")
	verif.Assert((r.CustomHookId == nil) == (len(attr.CustomHookId) == 0), "hyperlane-hook-nil-iff-empty")
	if r.CustomHookId != nil {
		verif.Assert(string(r.CustomHookId[:]) == string(attr.CustomHookId), "hyperlane-hook")
	}
	verif.Assert(r.GasLimit.Equal(attr.GasLimit), "hyperlane-gas-limit")
	verif.Assert(r.MaxFee.Denom == attr.MaxFee.Denom && r.MaxFee.Amount.Equal(attr.MaxFee.Amount), "hyperlane-max-fee")
	verif.Assert(r.CustomHookMetadata == attr.CustomHookMetadata, "hyperlane-hook-metadata")
}

func H_C05_internal() {
	w := NewWorld(false)
	denom := transferDenom(w)
	ta, _, D := afterActionsIn(w, denom)
	if denom != nativeDenom && verif.Bool("orbiter-also-holds-uusdc") {
		w.L.Set(core.ModuleAddress, nativeDenom, D)
	}
	rk := verif.Choose("recipient", 4)
	rcpt := []string{user1.String(), feeR1.String(), "", "noble1nope"}[rk]
	f := &core.Forwarding{ProtocolId: core.PROTOCOL_INTERNAL}
	must(f.SetAttributes(&fwdtypes.InternalAttributes{Recipient: rcpt}))
	err := w.K.Forwarder().HandlePacket(w.Ctx, &types.ForwardingPacket{TransferAttributes: ta, Forwarding: f})
	if err != nil {
		verif.Cover("refused")
		verif.Assert(rk >= 2, "valid-internal-forwarding-is-executed")
		verif.Assert(len(w.Int.reqs) == 0, "no-request-when-refused")
		return
	}
	verif.Cover("forwarded")
	verif.Assert(rk < 2, "malformed-recipient-is-refused")
	verif.Assert(len(w.Int.reqs) == 1 && len(w.CCTP.reqs) == 0 && len(w.Hyp.reqs) == 0, "exactly-one-request-on-the-internal-route")
	if len(w.Int.reqs) != 1 {
		return
	}
	r := w.Int.reqs[0]
	verif.Assert(r.FromAddress == core.ModuleAddress.String(), "internal-sender-is-the-orbiter-account")
	verif.Assert(r.ToAddress == rcpt, "internal-recipient")
	verif.Assert(len(r.Amount) == 1 && r.Amount[0].Denom == denom && r.Amount[0].Amount.Equal(D), "internal-coin-is-the-post-action-coin")
}

// every (protocol identifier, attribute type) combination, incl. numbers outside the enum and missing attributes
func H_C05_mismatch() {
	w := NewWorld(false)
	ta, _, _ := afterActions(w)
	var id core.ProtocolID
	if k := verif.Choose("protocol-id", 6); k < 5 {
		id = core.ProtocolID(k)
	} else {
		id = core.ProtocolID(verif.Int32("protocol-number"))
		verif.Assume(id < 0 || id > 4)
	}
	f := &core.Forwarding{ProtocolId: id}
	kind := verif.Choose("attributes", 4) // (a typed-nil message cannot be packed into an Any: the codec panics)
	switch kind {
	case 0:
		must(f.SetAttributes(&fwdtypes.CCTPAttributes{DestinationDomain: 0, MintRecipient: []byte{1}}))
	case 1:
		must(f.SetAttributes(&fwdtypes.HypAttributes{TokenId: make([]byte, 32), DestinationDomain: 5, Recipient: make([]byte, 32), GasLimit: math.ZeroInt(), MaxFee: sdk.Coin{Denom: "uusdc", Amount: math.ZeroInt()}}))
	case 2:
		must(f.SetAttributes(&fwdtypes.InternalAttributes{Recipient: user1.String()}))
	case 3: // no attributes at all
	}
	err := w.K.Forwarder().HandlePacket(w.Ctx, &types.ForwardingPacket{TransferAttributes: ta, Forwarding: f})
	agree := (id == core.PROTOCOL_CCTP && kind == 0) || (id == core.PROTOCOL_HYPERLANE && kind == 1) || (id == core.PROTOCOL_INTERNAL && kind == 2)
	n := len(w.CCTP.reqs) + len(w.Hyp.reqs) + len(w.Int.reqs)
	if agree {
		verif.Cover("identifier-and-attributes-agree")
		verif.Assert(err == nil && n == 1, "matching-forwarding-is-executed")
		verif.Assert((id == core.PROTOCOL_CCTP) == (len(w.CCTP.reqs) == 1) && (id == core.PROTOCOL_HYPERLANE) == (len(w.Hyp.reqs) == 1) && (id == core.PROTOCOL_INTERNAL) == (len(w.Int.reqs) == 1), "route-is-the-one-named-by-the-identifier")
	} else {
		verif.Cover("mismatch")
		verif.Assert(err != nil, "mismatched-or-unroutable-forwarding-is-refused")
		verif.Assert(n == 0, "mismatched-forwarding-reaches-no-bridge")
	}
}

// every action identifier x attribute type through the real dispatcher
func H_C05_actions() {
	w := NewWorld(false)
	A := math.NewInt(100000)
	ta, err := core.NewTransferAttributes(core.PROTOCOL_IBC, "channel-0", nativeDenom, A)
	must(err)
	w.L.Set(core.ModuleAddress, nativeDenom, A)
	var id core.ActionID
	if k := verif.Choose("action-id", 4); k < 3 {
		id = core.ActionID(k)
	} else {
		id = core.ActionID(verif.Int32("action-number"))
		verif.Assume(id < 0 || id > 2)
	}
	a := &core.Action{Id: id}
	kind := verif.Choose("attributes", 3)
	switch kind {
	case 0:
		b, err := actiontypes.NewFeeBasisPoints(100)
		must(err)
		fi, err := actiontypes.NewFeeInfo(feeR1.String(), b)
		must(err)
		must(a.SetAttributes(&actiontypes.FeeAttributes{FeesInfo: []*actiontypes.FeeInfo{fi}}))
	case 1:
		must(a.SetAttributes(&fwdtypes.InternalAttributes{Recipient: user1.String()})) // not an action attribute type
	case 2: // none
	}
	f, err := fwdtypes.NewInternalForwarding(user1.String())
	must(err)
	err = w.K.Dispatcher().DispatchPayload(w.Ctx, ta, &core.Payload{Forwarding: f, PreActions: []*core.Action{a}})
	if id == core.ACTION_FEE && kind == 0 {
		verif.Cover("fee-action-runs")
		verif.Assert(err == nil, "matching-action-is-executed")
		verif.Assert(w.L.Bal(feeR1, nativeDenom).Equal(math.NewInt(1000)) && w.L.Bal(user1, nativeDenom).Equal(math.NewInt(99000)), "fee-then-forward")
	} else {
		verif.Cover("action-refused")
		verif.Assert(err != nil, "unroutable-or-mismatched-action-is-refused")
		verif.Assert(len(w.L.sends) == 0 && len(w.Int.reqs) == 0, "refused-action-moves-nothing")
	}
}

// the authority's deposit replacement reaches CCTP with exactly its fields and the orbiter account as owner
func H_C05_replace() {
	w := NewWorld(false)
	ms := forwardercomp.NewMsgServer(w.K.Forwarder(), w.K)
	n := verif.Bound("blob")
	m := &forwardertypes.MsgReplaceDepositForBurn{
		Signer: authorityAddr.String(), OriginalMessage: verif.Bytes("message", n), OriginalAttestation: verif.Bytes("attestation", n),
		NewDestinationCaller: verif.Bytes("caller", n), NewMintRecipient: verif.Bytes("recipient", n),
	}
	if verif.Bool("original-message-is-a-genuine-burn-message") {
		// a well-formed CCTP message wrapping a burn message (version 0, domains 4 -> 0, nonce 7, mint recipient ab..ab,
		// amount 1000): whatever the module could read out of it, the request carries the authority's fields
		m.OriginalMessage = genuineBurnMessage()
	}
	w.CCTP.faults = true
	_, err := ms.ReplaceDepositForBurn(w.Ctx, m)
	if err != nil {
		verif.Cover("cctp-refused")
		verif.Assert(w.CCTP.failed == 1 && len(w.CCTP.replaces) == 0, "error-only-when-cctp-refuses")
		return
	}
	verif.Cover("replaced")
	verif.Assert(len(w.CCTP.replaces) == 1, "exactly-one-replace-request")
	r := w.CCTP.replaces[0]
	verif.Assert(r.From == core.ModuleAddress.String(), "replace-owner-is-the-orbiter-account")
	verif.Assert(string(r.OriginalMessage) == string(m.OriginalMessage) && string(r.OriginalAttestation) == string(m.OriginalAttestation), "replace-carries-message-and-attestation")
	verif.Assert(string(r.NewDestinationCaller) == string(m.NewDestinationCaller) && string(r.NewMintRecipient) == string(m.NewMintRecipient), "replace-carries-new-caller-and-recipient")
	verif.Assert(len(w.CCTP.reqs) == 0 && len(w.L.sends) == 0, "replace-moves-no-funds")
}


// H_C05_sequence: the request of a transfer is a function of that transfer's payload alone. A first transfer over any
// route with every optional parameter set is followed, on the same keeper and controllers, by a second transfer whose
// optional parameters are set or left empty independently; the second request must carry exactly the second payload
// (nothing remembered from the first: controllers, parsers and message objects are long-lived singletons).
func H_C05_sequence() {
	w := NewWorld(false)
	w.Hyp.tokenKnown, w.Hyp.originDenom = true, nativeDenom
	b32 := func(x byte) []byte {
		b := make([]byte, 32)
		for i := range b {
			b[i] = x
		}
		return b
	}
	send := func(f *core.Forwarding, A, D math.Int) error {
		ta, err := core.NewTransferAttributes(core.PROTOCOL_IBC, "channel-0", nativeDenom, A)
		must(err)
		ta.SetDestinationAmount(D)
		w.L.Set(core.ModuleAddress, nativeDenom, D)
		return w.K.Forwarder().HandlePacket(w.Ctx, &types.ForwardingPacket{TransferAttributes: ta, Forwarding: f})
	}
	// ---- first transfer: everything optional is present ------------------------------------------------------------------
	first := verif.Choose("first-route", 3)
	{
		var f *core.Forwarding
		switch first {
		case 0:
			f = &core.Forwarding{ProtocolId: core.PROTOCOL_CCTP}
			must(f.SetAttributes(&fwdtypes.CCTPAttributes{DestinationDomain: 3, MintRecipient: b32(0xa1), DestinationCaller: b32(0xa2)}))
		case 1:
			f = &core.Forwarding{ProtocolId: core.PROTOCOL_HYPERLANE}
			must(f.SetAttributes(&fwdtypes.HypAttributes{TokenId: b32(0xb1), DestinationDomain: 4, Recipient: b32(0xb2), CustomHookId: b32(0xee),
				GasLimit: math.NewInt(77), MaxFee: sdk.Coin{Denom: "uusdc", Amount: math.NewInt(55)}, CustomHookMetadata: "0x00ff"}))
		default:
			f = &core.Forwarding{ProtocolId: core.PROTOCOL_INTERNAL}
			must(f.SetAttributes(&fwdtypes.InternalAttributes{Recipient: user2.String()}))
		}
		if err := send(f, math.NewInt(1000), math.NewInt(900)); err != nil {
			return
		}
		verif.Cover("first-forwarded")
	}
	n1c, n1h, n1i := len(w.CCTP.reqs), len(w.Hyp.reqs), len(w.Int.reqs)
	// ---- second transfer ----------------------------------------------------------------------------------------------
	D := verif.BigInt("D")
	verif.Assume(D.IsPositive() && D.LT(math.NewIntWithDecimal(1, 30)))
	switch verif.Choose("second-route", 3) {
	case 0:
		attr := &fwdtypes.CCTPAttributes{DestinationDomain: 6, MintRecipient: b32(0xc1)}
		if verif.Bool("caller-given") {
			attr.DestinationCaller = b32(0xc2)
		}
		f := &core.Forwarding{ProtocolId: core.PROTOCOL_CCTP}
		must(f.SetAttributes(attr))
		err := send(f, D, D)
		if err != nil {
			verif.Assert(len(w.CCTP.reqs) == n1c && len(w.Hyp.reqs) == n1h && len(w.Int.reqs) == n1i, "no-request-when-refused")
			return
		}
		verif.Assert(len(w.CCTP.reqs) == n1c+1 && len(w.Hyp.reqs) == n1h && len(w.Int.reqs) == n1i, "exactly-one-more-request-on-the-cctp-route")
		if len(w.CCTP.reqs) != n1c+1 {
			return
		}
		r := w.CCTP.reqs[n1c]
		verif.Assert(r.domain == attr.DestinationDomain, "cctp-destination-domain")
		verif.Assert(string(r.recipient) == string(attr.MintRecipient), "cctp-mint-recipient")
		verif.Assert(r.withCaller == (len(attr.DestinationCaller) > 0), "cctp-with-caller-iff-caller-given")
		verif.Assert(string(r.caller) == string(attr.DestinationCaller), "cctp-destination-caller")
		verif.Assert(r.burnToken == nativeDenom && r.amount.Equal(D) && r.from == core.ModuleAddress.String(), "cctp-coin-and-sender")
	case 1:
		attr := &fwdtypes.HypAttributes{TokenId: b32(0xd1), DestinationDomain: 8, Recipient: b32(0xd2), GasLimit: math.ZeroInt(), MaxFee: sdk.Coin{Denom: "uusdc", Amount: math.ZeroInt()}}
		if verif.Bool("hook-given") {
			attr.CustomHookId = b32(0xd3)
		}
		if verif.Bool("metadata-given") {
			attr.CustomHookMetadata = "0x01"
		}
		if verif.Bool("gas-given") {
			attr.GasLimit = math.NewInt(5)
		}
		if verif.Bool("max-fee-given") {
			attr.MaxFee = sdk.Coin{Denom: "uusdc", Amount: math.NewInt(9)}
		}
		f := &core.Forwarding{ProtocolId: core.PROTOCOL_HYPERLANE}
		must(f.SetAttributes(attr))
		err := send(f, D, D)
		if err != nil {
			verif.Assert(len(w.CCTP.reqs) == n1c && len(w.Hyp.reqs) == n1h && len(w.Int.reqs) == n1i, "no-request-when-refused")
			return
		}
		verif.Assert(len(w.Hyp.reqs) == n1h+1 && len(w.CCTP.reqs) == n1c && len(w.Int.reqs) == n1i, "exactly-one-more-request-on-the-hyperlane-route")
		if len(w.Hyp.reqs) != n1h+1 {
			return
		}
		r := w.Hyp.reqs[n1h]
		verif.Assert(r.Sender == core.ModuleAddress.String(), "hyperlane-sender-is-the-orbiter-account")
		verif.Assert(string(r.TokenId[:]) == string(attr.TokenId), "hyperlane-token")
		verif.Assert(r.DestinationDomain == attr.DestinationDomain, "hyperlane-domain")
		verif.Assert(string(r.Recipient[:]) == string(attr.Recipient), "hyperlane-recipient")
		verif.Assert(r.Amount.Equal(D), "hyperlane-amount-is-the-post-action-amount")
		verif.Assert((r.CustomHookId == nil) == (len(attr.CustomHookId) == 0), "hyperlane-hook-nil-iff-empty")
		if r.CustomHookId != nil {
			verif.Assert(string(r.CustomHookId[:]) == string(attr.CustomHookId), "hyperlane-hook")
		}
		verif.Assert(r.GasLimit.Equal(attr.GasLimit), "hyperlane-gas-limit")
		verif.Assert(r.MaxFee.Denom == attr.MaxFee.Denom && r.MaxFee.Amount.Equal(attr.MaxFee.Amount), "hyperlane-max-fee")
		verif.Assert(r.CustomHookMetadata == attr.CustomHookMetadata, "hyperlane-hook-metadata")
	default:
		rcpt := []string{user1.String(), feeR1.String()}[verif.Choose("recipient", 2)]
		f := &core.Forwarding{ProtocolId: core.PROTOCOL_INTERNAL}
		must(f.SetAttributes(&fwdtypes.InternalAttributes{Recipient: rcpt}))
		err := send(f, D, D)
		if err != nil {
			verif.Assert(len(w.CCTP.reqs) == n1c && len(w.Hyp.reqs) == n1h && len(w.Int.reqs) == n1i, "no-request-when-refused")
			return
		}
		verif.Assert(len(w.Int.reqs) == n1i+1 && len(w.CCTP.reqs) == n1c && len(w.Hyp.reqs) == n1h, "exactly-one-more-request-on-the-internal-route")
		if len(w.Int.reqs) != n1i+1 {
			return
		}
		r := w.Int.reqs[n1i]
		verif.Assert(r.FromAddress == core.ModuleAddress.String() && r.ToAddress == rcpt, "internal-sender-and-recipient")
		verif.Assert(len(r.Amount) == 1 && r.Amount[0].Denom == nativeDenom && r.Amount[0].Amount.Equal(D), "internal-coin-is-the-post-action-coin")
	}
	verif.Cover("second-forwarded")
}

const genuineBurnMessageHex = "0000000000000004000000000000000000000007333333333333333333333333333333333333333333333333333333333333333344444444444444444444444444444444444444444444444444444444444444440000000000000000000000000000000000000000000000000000000000000000000000001111111111111111111111111111111111111111111111111111111111111111abababababababababababababababababababababababababababababababab00000000000000000000000000000000000000000000000000000000000003e82222222222222222222222222222222222222222222222222222222222222222"

func genuineBurnMessage() []byte {
	b := make([]byte, 0, len(genuineBurnMessageHex)/2)
	for i := 0; i+1 < len(genuineBurnMessageHex); i += 2 {
		b = append(b, hexNibble(genuineBurnMessageHex[i])<<4|hexNibble(genuineBurnMessageHex[i+1]))
	}
	return b
}

func hexNibble(c byte) byte {
	if c >= 'a' {
		return c - 'a' + 10
	}
	return c - '0'
}
