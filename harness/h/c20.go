package h

import (
	fwdtypes "github.com/noble-assets/orbiter/v2/types/controller/forwarding"
	"github.com/noble-assets/orbiter/v2/types/core"
	"github.com/noble-assets/orbiter/v2/zzverif/verif"
)

func init() {
	reg("H_C20_canon_cctp", H_C20_canon_cctp)
	reg("H_C20_canon_hyp", H_C20_canon_hyp)
	reg("H_C20_attr_cctp", H_C20_attr_cctp)
	reg("H_C20_attr_hyp", H_C20_attr_hyp)
	reg("H_C20_roundtrip_ibc", H_C20_roundtrip_ibc)
	reg("H_C20_roundtrip_cctp", H_C20_roundtrip_cctp)
	reg("H_C20_roundtrip_hyp", H_C20_roundtrip_hyp)
	reg("H_C20_roundtrip_internal", H_C20_roundtrip_internal)
	reg("H_C20_distinct", H_C20_distinct)
	reg("H_C20_parse_sound", H_C20_parse_sound)
}

// canonicalU32 is the reference predicate of C20: exactly the decimal form of a 32-bit number.
func canonicalU32(s string) bool {
	if len(s) == 0 || len(s) > 10 {
		return false
	}
	if len(s) > 1 && s[0] == '0' {
		return false
	}
	var v uint64
	for i := 0; i < len(s); i++ {
		c := s[i]
		if c < '0' || c > '9' {
			return false
		}
		v = v*10 + uint64(c-'0')
	}
	return v <= 4294967295
}

// accepted <=> canonical, for every counterparty string up to the bound.
func canon(p core.ProtocolID) {
	s := verif.String("cp", verif.Bound("strlen"))
	ok := core.ValidateCounterpartyID(s, p) == nil
	if ok {
		verif.Cover("accepted")
		verif.Assert(canonicalU32(s), "accepted-implies-canonical")
	} else {
		verif.Cover("rejected")
		verif.Assert(!canonicalU32(s), "canonical-implies-accepted")
	}
	// the same decision through the cross-chain id constructor (pause messages, queries, genesis all use it)
	_, err := core.NewCrossChainID(p, s)
	verif.Assert((err == nil) == ok, "constructor-agrees-with-validator")
}

func H_C20_canon_cctp() { canon(core.PROTOCOL_CCTP) }
func H_C20_canon_hyp()  { canon(core.PROTOCOL_HYPERLANE) }

// the string under which transfers to a domain are matched and recorded is accepted and canonical, for all 2^32 domains
func H_C20_attr_cctp() {
	d := verif.Uint32("domain")
	s := (&fwdtypes.CCTPAttributes{DestinationDomain: d}).CounterpartyID()
	verif.Assert(core.ValidateCounterpartyID(s, core.PROTOCOL_CCTP) == nil, "attr-string-accepted")
	verif.Assert(canonicalU32(s), "attr-string-canonical")
	// and it denotes d: another domain renders differently
	d2 := verif.Uint32("domain2")
	s2 := (&fwdtypes.CCTPAttributes{DestinationDomain: d2}).CounterpartyID()
	if s == s2 {
		verif.Assert(d == d2, "attr-string-injective")
	}
}

func H_C20_attr_hyp() {
	d := verif.Uint32("domain")
	s := (&fwdtypes.HypAttributes{DestinationDomain: d}).CounterpartyID()
	verif.Assert(core.ValidateCounterpartyID(s, core.PROTOCOL_HYPERLANE) == nil, "attr-string-accepted")
	verif.Assert(canonicalU32(s), "attr-string-canonical")
	d2 := verif.Uint32("domain2")
	s2 := (&fwdtypes.HypAttributes{DestinationDomain: d2}).CounterpartyID()
	if s == s2 {
		verif.Assert(d == d2, "attr-string-injective")
	}
	// both bridges render a domain the same way
	verif.Assert(s == (&fwdtypes.CCTPAttributes{DestinationDomain: d}).CounterpartyID(), "cctp-and-hyperlane-render-alike")
}

// textual form parses back to the same pair
func roundTrip(p core.ProtocolID) {
	s := verif.String("cp", verif.Bound("strlen"))
	id := core.CrossChainID{ProtocolId: p, CounterpartyId: s}
	if id.Validate() != nil {
		verif.Cover("invalid")
		return
	}
	verif.Cover("valid")
	back, err := core.ParseCrossChainID(id.ID())
	verif.Assert(err == nil, "parse-of-ID-succeeds")
	if err == nil {
		verif.Assert(back.ProtocolId == p, "protocol-roundtrip")
		verif.Assert(back.CounterpartyId == s, "counterparty-roundtrip")
	}
}

func H_C20_roundtrip_ibc()      { roundTrip(core.PROTOCOL_IBC) }
func H_C20_roundtrip_cctp()     { roundTrip(core.PROTOCOL_CCTP) }
func H_C20_roundtrip_hyp()      { roundTrip(core.PROTOCOL_HYPERLANE) }
func H_C20_roundtrip_internal() { roundTrip(core.PROTOCOL_INTERNAL) }

// distinct pairs have distinct forms (protocol id arbitrary int32, counterparties arbitrary)
func H_C20_distinct() {
	n := verif.Bound("strlen")
	p1 := core.ProtocolID(verif.Int32("p1"))
	p2 := core.ProtocolID(verif.Int32("p2"))
	s1 := verif.String("cp1", n)
	s2 := verif.String("cp2", n)
	a := core.CrossChainID{ProtocolId: p1, CounterpartyId: s1}
	b := core.CrossChainID{ProtocolId: p2, CounterpartyId: s2}
	if a.Validate() != nil || b.Validate() != nil {
		verif.Cover("invalid")
		return
	}
	verif.Cover("both-valid")
	same := p1 == p2 && s1 == s2
	verif.Assert((a.ID() == b.ID()) == same, "distinct-pairs-distinct-forms")
}

// whatever ParseCrossChainID accepts is a valid pair whose form is the input (no two inputs parse to one pair)
func H_C20_parse_sound() {
	str := verif.String("id", verif.Bound("idlen"))
	id, err := core.ParseCrossChainID(str)
	if err != nil {
		verif.Cover("refused")
		return
	}
	verif.Cover("parsed")
	verif.Assert(id.Validate() == nil, "parsed-id-is-valid")
	// (not asserted: id.ID() == str — "+4:x" and "4:x" parse to the same pair; the property pins
	// form -> pair -> form, not that every parseable spelling is the canonical one)
	back, err := core.ParseCrossChainID(id.ID())
	verif.Assert(err == nil && back.ProtocolId == id.ProtocolId && back.CounterpartyId == id.CounterpartyId, "parse-is-idempotent")
}
