package h

import (
	"cosmossdk.io/math"
	sdk "github.com/cosmos/cosmos-sdk/types"

	forwardercomp "github.com/noble-assets/orbiter/v2/keeper/component/forwarder"
	forwardertypes "github.com/noble-assets/orbiter/v2/types/component/forwarder"
	fwdtypes "github.com/noble-assets/orbiter/v2/types/controller/forwarding"
	"github.com/noble-assets/orbiter/v2/types/core"
	"github.com/noble-assets/orbiter/v2/zzverif/verif"
)

func init() {
	reg("H_C08_step", H_C08_step)
	reg("H_C08_enforce", H_C08_enforce)
	reg("H_C08_history", H_C08_history)
	reg("H_C08_batch_limit", H_C08_batch_limit)
}

type ccPair struct {
	p  core.ProtocolID
	cp string
}

// reference model of the forwarder's pause state
type pauseRef struct {
	prot [5]bool
	cc   []ccPair
}

func (r *pauseRef) hasCC(p core.ProtocolID, cp string) bool {
	for _, x := range r.cc {
		if x.p == p && x.cp == cp {
			return true
		}
	}
	return false
}

func (r *pauseRef) delCC(p core.ProtocolID, cp string) {
	for i, x := range r.cc {
		if x.p == p && x.cp == cp {
			r.cc = append(r.cc[:i:i], r.cc[i+1:]...)
			return
		}
	}
}

var protoNames = []string{"PROTOCOL_IBC", "PROTOCOL_CCTP", "PROTOCOL_HYPERLANE", "PROTOCOL_INTERNAL", "PROTOCOL_UNSUPPORTED", "PROTOCOL_NOPE", ""}

// protoOfName is the reference meaning of a protocol name in a message (0 = not usable).
func protoOfName(k int) core.ProtocolID {
	if k < 4 {
		return core.ProtocolID(k + 1)
	}
	return 0
}

func validCP(cp string, p core.ProtocolID) bool {
	if cp == "" || len(cp) > 32 {
		return false
	}
	switch p {
	case core.PROTOCOL_CCTP, core.PROTOCOL_HYPERLANE:
		return canonicalU32(cp)
	case core.PROTOCOL_INTERNAL:
		for i := 0; i < len(cp); i++ {
			if cp[i] == 0 {
				return false // not usable as a store key component
			}
		}
		return true
	case core.PROTOCOL_IBC:
		return core.ValidateCounterpartyID(cp, p) == nil // channel-N syntax is ibc-go's
	}
	return false
}

// cpFor draws a counterparty string for protocol p: IBC identifiers come from a small set of channel ids (valid ones
// need >= 9 bytes), all others are arbitrary strings of at most strlen bytes.
func cpFor(p core.ProtocolID, label string) string {
	if p == core.PROTOCOL_IBC {
		return []string{"channel-0", "channel-1", "chan"}[verif.Choose(label+"-ibc", 3)]
	}
	if p == core.PROTOCOL_INTERNAL && verif.Bool(label+"-is-the-internal-destination") {
		return fwdtypes.CounterpartyID // the one identifier internal transfers are matched under (longer than strlen)
	}
	return verif.String(label, verif.Bound("strlen"))
}

// preState builds an arbitrary pause state directly through the component setters: the pause bit of the protocols in
// `protocols` and up to prePairs paused pairs over those protocols.
func preState(w *World, ref *pauseRef, protocols []core.ProtocolID) {
	fw := w.K.Forwarder()
	for _, p := range protocols {
		if p >= 1 && p <= 4 && !ref.prot[p] && verif.Bool("pre-protocol-paused") {
			must(fw.SetPausedProtocol(w.Ctx, p))
			ref.prot[p] = true
		}
	}
	for i := 0; i < verif.Bound("prePairs"); i++ {
		if !verif.Bool("pre-pair") {
			continue
		}
		p := protocols[verif.Choose("pre-pair-protocol", len(protocols))]
		if p < 1 || p > 4 {
			continue
		}
		cp := cpFor(p, "pre-cp")
		verif.Assume(validCP(cp, p) && !ref.hasCC(p, cp))
		must(fw.SetPausedCrossChain(w.Ctx, core.CrossChainID{ProtocolId: p, CounterpartyId: cp}))
		ref.cc = append(ref.cc, ccPair{p, cp})
	}
	verif.Cover("pre-state-built")
}

// checkQueries: the pause queries report exactly the reference sets (for the given protocols).
func checkQueries(w *World, ref *pauseRef, protocols []core.ProtocolID) {
	qs := forwardercomp.NewQueryServer(w.K.Forwarder())
	pp, qerr := qs.PausedProtocols(w.Ctx, &forwardertypes.QueryPausedProtocolsRequest{})
	verif.Assert(qerr == nil, "paused-protocols-query-succeeds")
	if qerr == nil {
		cnt := 0
		for q := core.ProtocolID(1); q <= 4; q++ {
			if ref.prot[q] {
				cnt++
			}
			listed := 0
			for _, x := range pp.ProtocolIds {
				if x == q {
					listed++
				}
			}
			verif.Assert(listed <= 1, "paused-protocols-query-lists-no-duplicates")
			verif.Assert((listed == 1) == ref.prot[q], "paused-protocols-query-is-the-set")
		}
		verif.Assert(len(pp.ProtocolIds) == cnt, "paused-protocols-query-has-no-foreign-entry")
	}
	for _, q := range protocols {
		if q < 1 || q > 4 {
			continue
		}
		pc, qerr := qs.PausedCrossChains(w.Ctx, &forwardertypes.QueryPausedCrossChainsRequest{ProtocolId: protoNames[q-1]})
		verif.Assert(qerr == nil, "paused-crosschains-query-succeeds")
		if qerr != nil {
			continue
		}
		cnt := 0
		for _, x := range ref.cc {
			if x.p == q {
				cnt++
				found := 0
				for _, y := range pc.CounterpartyIds {
					if y == x.cp {
						found++
					}
				}
				verif.Assert(found == 1, "paused-crosschains-query-lists-each-paused-id-once")
			}
		}
		verif.Assert(len(pc.CounterpartyIds) == cnt, "paused-crosschains-query-has-no-foreign-entry")
		ip, qerr := qs.IsProtocolPaused(w.Ctx, &forwardertypes.QueryIsProtocolPausedRequest{ProtocolId: protoNames[q-1]})
		verif.Assert(qerr == nil && ip.IsPaused == ref.prot[q], "is-protocol-paused-query-is-the-set")
	}
}

// adminStep sends one symbolic admin message and checks its result against the reference model.
func adminStep(w *World, ref *pauseRef, nameK int) {
	ms := forwardercomp.NewMsgServer(w.K.Forwarder(), w.K)
	kind := verif.Choose("msg-kind", 4)
	name := protoNames[nameK]
	p := protoOfName(nameK)
	evBefore := len(w.Ev.list)
	var err error
	switch kind {
	case 0:
		err = verif.Atomically(w.Ctx, func(ctx sdk.Context) error {
			_, e := ms.PauseProtocol(ctx, &forwardertypes.MsgPauseProtocol{Signer: authorityAddr.String(), ProtocolId: name})
			return e
		})
		want := p != 0 && !ref.prot[p]
		verif.Assert((err == nil) == want, "pause-protocol-result")
		if want {
			ref.prot[p] = true
		}
	case 1:
		err = verif.Atomically(w.Ctx, func(ctx sdk.Context) error {
			_, e := ms.UnpauseProtocol(ctx, &forwardertypes.MsgUnpauseProtocol{Signer: authorityAddr.String(), ProtocolId: name})
			return e
		})
		want := p != 0 && ref.prot[p]
		verif.Assert((err == nil) == want, "unpause-protocol-result")
		if want {
			ref.prot[p] = false
		}
	default:
		// batches of 1..B ids (an empty batch pauses the whole protocol: not pinned by the property, outside this harness)
		nb := 1 + verif.Choose("batch", verif.Bound("batch"))
		ids := make([]string, 0, 4)
		for j := 0; j < nb; j++ {
			ids = append(ids, cpFor(p, "cp"))
		}
		if kind == 2 {
			err = verif.Atomically(w.Ctx, func(ctx sdk.Context) error {
				_, e := ms.PauseCrossChains(ctx, &forwardertypes.MsgPauseCrossChains{Signer: authorityAddr.String(), ProtocolId: name, CounterpartyIds: ids})
				return e
			})
		} else {
			err = verif.Atomically(w.Ctx, func(ctx sdk.Context) error {
				_, e := ms.UnpauseCrossChains(ctx, &forwardertypes.MsgUnpauseCrossChains{Signer: authorityAddr.String(), ProtocolId: name, CounterpartyIds: ids})
				return e
			})
		}
		// reference: all-or-nothing
		want := p != 0
		trial := &pauseRef{prot: ref.prot, cc: append([]ccPair{}, ref.cc...)}
		for j := 0; j < nb && want; j++ {
			if !validCP(ids[j], p) {
				want = false
			} else if kind == 2 {
				if trial.hasCC(p, ids[j]) {
					want = false // redundant (or repeated inside the batch)
				} else {
					trial.cc = append(trial.cc, ccPair{p, ids[j]})
				}
			} else {
				if !trial.hasCC(p, ids[j]) {
					want = false
				} else {
					trial.delCC(p, ids[j])
				}
			}
		}
		verif.Assert((err == nil) == want, "crosschain-batch-result")
		if want {
			ref.cc = trial.cc
		}
	}
	if err == nil {
		verif.Cover("message-accepted") // (events are not pinned by the property: not asserted)
	} else {
		verif.Cover("message-refused")
	}
	_ = evBefore
}

// probe sends one transfer to a symbolic destination through the real middleware and checks enforcement.
func probe(w *World, ref *pauseRef, route int) {
	var f *core.Forwarding
	var dp core.ProtocolID
	var dcp string
	var err error
	switch route {
	case 0:
		d := verif.Uint32("probe-domain")
		verif.Assume(d < 1000 && d != fwdtypes.CCTPNobleDomain)
		f, err = fwdtypes.NewCCTPForwarding(d, []byte{1, 2, 3}, nil, nil)
		dp, dcp = core.PROTOCOL_CCTP, (&fwdtypes.CCTPAttributes{DestinationDomain: d}).CounterpartyID()
	case 1:
		d := verif.Uint32("probe-domain")
		verif.Assume(d < 1000)
		f, err = fwdtypes.NewHyperlaneForwarding(make([]byte, 32), d, make([]byte, 32), nil, "", math.ZeroInt(), sdk.Coin{Denom: "uusdc", Amount: math.ZeroInt()}, nil)
		dp, dcp = core.PROTOCOL_HYPERLANE, (&fwdtypes.HypAttributes{DestinationDomain: d}).CounterpartyID()
	default:
		f, err = fwdtypes.NewInternalForwarding(user1.String())
		dp, dcp = core.PROTOCOL_INTERNAL, fwdtypes.CounterpartyID
	}
	must(err)
	pl, err := core.NewPayload(f)
	must(err)
	A := math.NewInt(1000)
	w.L.Set(escrow, nativeDenom, math.NewInt(5000))
	ack := w.Recv(orbiterData(A, pl))
	paused := ref.prot[dp] || ref.hasCC(dp, dcp)
	executed := len(w.CCTP.reqs)+len(w.Hyp.reqs)+len(w.Int.reqs) == 1
	if paused {
		verif.Cover("probe-paused")
		verif.Assert(!ack.Success(), "paused-destination-gets-error-ack")
		verif.Assert(!executed, "paused-destination-is-not-forwarded-to")
	} else {
		verif.Cover("probe-not-paused")
		verif.Assert(ack.Success(), "unpaused-destination-proceeds")
		verif.Assert(executed, "unpaused-destination-is-forwarded-to")
	}
	fw := w.K.Forwarder()
	qs := forwardercomp.NewQueryServer(fw)
	ip, e1 := fw.IsProtocolPaused(w.Ctx, dp)
	verif.Assert(e1 == nil && ip == ref.prot[dp], "is-protocol-paused-is-the-set")
	ic, e2 := qs.IsCrossChainPaused(w.Ctx, &forwardertypes.QueryIsCrossChainPausedRequest{ProtocolId: protoNames[dp-1], CounterpartyId: dcp})
	verif.Assert(e2 == nil && ic.IsPaused == ref.hasCC(dp, dcp), "is-crosschain-paused-is-the-set")
}

// H_C08_step: from an arbitrary pause state of the message's protocol and one other protocol, one admin message of any
// kind / protocol name / batch; result and queries against the reference model.
func H_C08_step() {
	w := NewWorld(false)
	ref := &pauseRef{}
	nameK := verif.Choose("msg-protocol", len(protoNames))
	p := protoOfName(nameK)
	other := core.ProtocolID(1 + verif.Choose("other-protocol", 4))
	protocols := []core.ProtocolID{other}
	if p != 0 && p != other {
		protocols = []core.ProtocolID{p, other}
	}
	preState(w, ref, protocols)
	adminStep(w, ref, nameK)
	checkQueries(w, ref, protocols)
}

// H_C08_enforce: arbitrary pause state (any subset of protocols, up to prePairs pairs on the probe's protocol and one
// other), then a transfer to a symbolic destination through the real middleware: executed iff not paused.
func H_C08_enforce() {
	w := NewWorld(false)
	ref := &pauseRef{}
	route := verif.Choose("probe-route", 3)
	dp := []core.ProtocolID{core.PROTOCOL_CCTP, core.PROTOCOL_HYPERLANE, core.PROTOCOL_INTERNAL}[route]
	other := core.ProtocolID(1 + verif.Choose("other-protocol", 4))
	protocols := []core.ProtocolID{dp}
	if other != dp {
		protocols = []core.ProtocolID{dp, other}
	}
	preState(w, ref, protocols)
	probe(w, ref, route)
}

// H_C08_history: from the empty state, a sequence of admin messages (queries after each) and then a probe.
func H_C08_history() {
	w := NewWorld(false)
	ref := &pauseRef{}
	route := verif.Choose("probe-route", 3)
	dp := []core.ProtocolID{core.PROTOCOL_CCTP, core.PROTOCOL_HYPERLANE, core.PROTOCOL_INTERNAL}[route]
	verif.Cover("pre-state-built")
	for s := 0; s < verif.Bound("steps"); s++ {
		// messages about the probe's protocol or one other name
		nameK := int(dp) - 1 // (messages about other protocols: H_C08_step)
		adminStep(w, ref, nameK)
		checkQueries(w, ref, []core.ProtocolID{dp})
	}
	probe(w, ref, route)
}

// H_C08_batch_limit: batches of exactly 100 and 101 identifiers.
func H_C08_batch_limit() {
	w := NewWorld(false)
	ms := forwardercomp.NewMsgServer(w.K.Forwarder(), w.K)
	qs := forwardercomp.NewQueryServer(w.K.Forwarder())
	size := 100 + verif.Choose("over", 2)
	ids := make([]string, 0, 101)
	for i := 0; i < size; i++ {
		ids = append(ids, (&fwdtypes.CCTPAttributes{DestinationDomain: uint32(i)}).CounterpartyID())
	}
	pause := verif.Bool("pause")
	if !pause {
		// unpause needs them paused first (in two messages of at most 100)
		_, e := ms.PauseCrossChains(w.Ctx, &forwardertypes.MsgPauseCrossChains{Signer: authorityAddr.String(), ProtocolId: "PROTOCOL_CCTP", CounterpartyIds: ids[:100]})
		must(e)
		if size > 100 {
			_, e = ms.PauseCrossChains(w.Ctx, &forwardertypes.MsgPauseCrossChains{Signer: authorityAddr.String(), ProtocolId: "PROTOCOL_CCTP", CounterpartyIds: ids[100:]})
			must(e)
		}
	}
	err := verif.Atomically(w.Ctx, func(ctx sdk.Context) error {
		if pause {
			_, e := ms.PauseCrossChains(ctx, &forwardertypes.MsgPauseCrossChains{Signer: authorityAddr.String(), ProtocolId: "PROTOCOL_CCTP", CounterpartyIds: ids})
			return e
		}
		_, e := ms.UnpauseCrossChains(ctx, &forwardertypes.MsgUnpauseCrossChains{Signer: authorityAddr.String(), ProtocolId: "PROTOCOL_CCTP", CounterpartyIds: ids})
		return e
	})
	verif.Assert((err == nil) == (size <= core.MaxTargetCounterparties), "batch-accepted-iff-at-most-100")
	want := 0
	if pause == (err == nil) {
		want = size
	}
	have := 0
	for _, id := range ids {
		ip, e := w.K.Forwarder().IsCrossChainPaused(w.Ctx, core.CrossChainID{ProtocolId: core.PROTOCOL_CCTP, CounterpartyId: id})
		must(e)
		if ip {
			have++
		}
	}
	verif.Assert(have == want, "batch-applied-entirely-or-not-at-all")
	// the unpaged listing is capped at the SDK's default page size (100)
	pc, qerr := qs.PausedCrossChains(w.Ctx, &forwardertypes.QueryPausedCrossChainsRequest{ProtocolId: "PROTOCOL_CCTP"})
	must(qerr)
	capped := want
	if capped > 100 {
		capped = 100
	}
	verif.Assert(len(pc.CounterpartyIds) == capped, "listing-shows-the-paused-ids-up-to-the-default-page-size")
}
