package h

import (
	"strings"

	"cosmossdk.io/math"
	transfertypes "github.com/cosmos/ibc-go/v8/modules/apps/transfer/types"

	fwdtypes "github.com/noble-assets/orbiter/v2/types/controller/forwarding"
	"github.com/noble-assets/orbiter/v2/types/core"
	"github.com/noble-assets/orbiter/v2/zzverif/verif"
)

func init() {
	reg("H_C01_encodings", H_C01_encodings)
	reg("H_C07_sequence", H_C07_sequence)
}

func internalPayloadMemo(to string) string {
	f, err := fwdtypes.NewInternalForwarding(to)
	must(err)
	pl, err := core.NewPayload(f)
	must(err)
	return verif.EncodeMemo(&core.PayloadWrapper{Orbiter: pl}, 0)
}

// H_C01_encodings: the same packet data in every wire form a JSON decoder maps to the same fields (canonical, empty
// fields omitted, escaped characters and white space). Whatever the spelling on the wire, a packet whose receiver decodes
// to the orbiter account is an orbiter transfer: success acknowledgement => nothing is left on the orbiter account.
// (Symbolically the three forms are the same abstract document; code that looks at the raw bytes instead of the decoded
// fields ends the symbolic path and is decided by the native run on the real bytes.)
func H_C01_encodings() {
	w := NewWorld(false)
	A := math.NewInt(1000)
	w.L.Set(escrow, nativeDenom, math.NewInt(5000))
	orb := core.ModuleAddress.String()
	rk := verif.Choose("receiver", 3)
	rcv := []string{orb, strings.ToUpper(orb), user2.String()}[rk]
	d := transfertypes.FungibleTokenPacketData{Denom: voucherOnSender, Amount: A.String(), Sender: "sender", Receiver: rcv}
	mk := verif.Choose("memo", 3)
	switch mk {
	case 1:
		d.Memo = internalPayloadMemo(user1.String())
	case 2:
		d.Memo = "gm"
	}
	wire := verif.Choose("wire-form", 3)
	before := w.L.Bal(core.ModuleAddress, nativeDenom)
	ack := w.MW.OnRecvPacket(w.Ctx, packetOf(verif.EncodeICS20Wire(d, wire)), relayerAddr)
	if !ack.Success() {
		verif.Cover("refused")
		// (whether a well-formed transfer in an unusual wire form is executed or refused is not what C01 pins down)
		return
	}
	verif.Cover("success")
	after := w.L.Bal(core.ModuleAddress, nativeDenom)
	verif.Assert(after.LTE(before), "orbiter-balance-not-larger-after-success")
	if rk < 2 {
		verif.Assert(after.IsZero(), "nothing-left-on-orbiter")
		if mk == 1 {
			verif.Cover("orbiter-transfer-executed")
			verif.Assert(w.L.Bal(user1, nativeDenom).Equal(A), "whole-coin-delivered")
		}
	}
}

// H_C07_sequence: pass-through does not depend on what came before. After an earlier packet (none / an orbiter transfer /
// a refused orbiter packet / a plain transfer), a packet that is NOT for the orbiter — in any wire form, with any subset of
// its fields empty — is handled by the wrapped application alone. (Adapters, parsers and controllers are long-lived
// singletons; a JSON decoder does not reset its target, so a field absent from the second document must not be inherited
// from the first.)
func H_C07_sequence() {
	w := NewWorld(false)
	w.L.Set(escrow, nativeDenom, math.NewInt(1000000))
	orb := core.ModuleAddress.String()
	switch verif.Choose("earlier-packet", 4) {
	case 1:
		ack := w.Recv(transfertypes.FungibleTokenPacketData{Denom: voucherOnSender, Amount: "500", Sender: "earlier", Receiver: orb, Memo: internalPayloadMemo(user1.String())})
		verif.Assert(ack.Success(), "earlier-orbiter-transfer-executed")
		verif.Cover("after-an-orbiter-transfer")
	case 2:
		ack := w.Recv(transfertypes.FungibleTokenPacketData{Denom: voucherOnSender, Amount: "500", Sender: "earlier", Receiver: orb, Memo: "gm"})
		verif.Assert(!ack.Success(), "earlier-malformed-orbiter-packet-refused")
	case 3:
		w.Recv(transfertypes.FungibleTokenPacketData{Denom: voucherOnSender, Amount: "500", Sender: "earlier", Receiver: user1.String(), Memo: "hello"})
	}
	// someone left coins on the orbiter account in the meantime: a pass-through must not touch them
	w.L.Set(core.ModuleAddress, nativeDenom, math.NewInt(7))
	calls0, ev0 := w.App.calls, len(w.Ev.list)
	reqs0 := len(w.CCTP.reqs) + len(w.Hyp.reqs) + len(w.Int.reqs)
	d := transfertypes.FungibleTokenPacketData{Denom: voucherOnSender, Amount: "1000", Sender: "sender"}
	d.Receiver = []string{user2.String(), "", "noble1nope"}[verif.Choose("receiver", 3)]
	switch verif.Choose("memo", 4) {
	case 1:
		d.Memo = "gm"
	case 2:
		d.Memo = internalPayloadMemo(user1.String())
	case 3:
		d.Memo = strings.Repeat("m", 70000) // larger than any size a well-meaning guard might assume (ICS-20 has no receive-side limit)
	}
	if verif.Bool("no-sender") {
		d.Sender = ""
	}
	if verif.Bool("no-amount") {
		d.Amount = ""
	}
	wire := verif.Choose("wire-form", 3)
	pkt := packetOf(verif.EncodeICS20Wire(d, wire))
	pkt.Sequence = 2
	d0 := verif.StateDigest(w.Ctx)
	ack := w.MW.OnRecvPacket(w.Ctx, pkt, relayerAddr)
	verif.Cover("not-for-orbiter")
	verif.Assert(w.App.calls == calls0+1, "wrapped-application-called-exactly-once")
	verif.Assert(ack == w.App.lastAck, "acknowledgement-is-the-wrapped-applications")
	verif.Assert(string(w.App.sawPacket.Data) == string(pkt.Data) && w.App.sawPacket.Sequence == pkt.Sequence, "wrapped-application-saw-the-same-packet")
	verif.Assert(verif.StateDigest(w.Ctx) == d0, "orbiter-state-untouched")
	verif.Assert(len(w.Ev.list) == ev0, "no-orbiter-event")
	verif.Assert(len(w.CCTP.reqs)+len(w.Hyp.reqs)+len(w.Int.reqs) == reqs0, "no-bridge-request")
	verif.Assert(w.L.Bal(core.ModuleAddress, nativeDenom).Equal(math.NewInt(7)), "orbiter-account-untouched")
}
