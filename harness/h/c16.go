package h

import (
	"cosmossdk.io/math"
	channeltypes "github.com/cosmos/ibc-go/v8/modules/core/04-channel/types"

	fwdtypes "github.com/noble-assets/orbiter/v2/types/controller/forwarding"
	transfertypes "github.com/cosmos/ibc-go/v8/modules/apps/transfer/types"

	adapterctrl "github.com/noble-assets/orbiter/v2/controller/adapter"
	"github.com/noble-assets/orbiter/v2/types/core"
	"github.com/noble-assets/orbiter/v2/zzverif/verif"
)

func init() {
	reg("H_C16_denom", H_C16_denom)
	reg("H_C16_credit", H_C16_credit)
	reg("H_C16_ports", H_C16_ports)
}

// segment draws one '/'-free piece of a denomination: the identifiers that matter, or arbitrary bytes of a chosen length
func segment() string {
	switch k := verif.Choose("segment-kind", 5); k {
	case 0:
		return "transfer"
	case 1:
		return "channel-7"
	case 2:
		return "channel-8"
	case 3:
		return "uusdc"
	}
	return verif.SlashFree("segment", verif.Choose("segment-len", verif.Bound("seglen")+1))
}

// H_C16_denom: RecoverNativeDenom against the ICS-20 application's own derivation (ibc-go relay.go:205-221, same helper
// functions) on denominations of 1..K segments (empty segments allowed: leading, trailing and doubled slashes are in).
func H_C16_denom() {
	k := 1 + verif.Choose("segments", verif.Bound("segments"))
	denom := ""
	for i := 0; i < k; i++ {
		if i > 0 {
			denom += "/"
		}
		denom += segment()
	}
	port, channel := "transfer", "channel-7"
	if verif.Bool("other-channel") {
		channel = "channel-8"
	}
	got, err := adapterctrl.RecoverNativeDenom(denom, port, channel)

	// what ICS-20 does with the same packet
	returning := transfertypes.ReceiverChainIsSource(port, channel, denom)
	if err == nil {
		verif.Cover("accepted")
		verif.Assert(returning, "accepted-only-when-returning-over-the-channel-it-left-on")
		if !returning {
			return
		}
		prefix := transfertypes.GetDenomPrefix(port, channel)
		unprefixed := denom[len(prefix):]
		tr := transfertypes.ParseDenomTrace(unprefixed)
		verif.Assert(tr.IsNativeDenom(), "accepted-only-when-the-remainder-is-native-here")
		credited := unprefixed
		if !tr.IsNativeDenom() {
			credited = tr.IBCDenom()
		}
		verif.Assert(got == credited, "acts-on-the-denomination-ics20-credits")
		// (an empty remainder is returned as an empty denomination here; the packet is then refused when the coin is built)
		return
	}
	verif.Cover("refused")
	if returning {
		prefix := transfertypes.GetDenomPrefix(port, channel)
		tr := transfertypes.ParseDenomTrace(denom[len(prefix):])
		verif.Assert(!tr.IsNativeDenom() || denom[len(prefix):] == "", "returning-native-token-is-accepted")
	} else {
		verif.Cover("refused-not-returning")
	}
}

// H_C16_credit: through the middleware — whenever a packet is accepted, the coin orbiter forwards and records is the coin
// the ICS-20 application credited.
func H_C16_credit() {
	w := NewWorld(false)
	s := drawScenario()
	s.apply(w, true)
	ack := w.Recv(s.data())
	if !ack.Success() || !s.toOrbiter() {
		verif.Cover("not-accepted")
		return
	}
	verif.Cover("accepted")
	c := w.App.credited
	verif.Assert(string(w.App.creditTo) == string(core.ModuleAddress), "credit-went-to-the-orbiter-account")
	verif.Assert(c.Denom == nativeDenom, "only-noble-native-denominations-are-processed")
	verif.Assert(c.Amount.Equal(s.A), "credited-amount-is-the-packet-amount")
	var fwdDenom string
	switch s.route {
	case routeCCTP:
		fwdDenom = w.CCTP.reqs[0].burnToken
	case routeHyp:
		fwdDenom = w.Hyp.originDenom
	default:
		fwdDenom = w.Int.reqs[0].Amount[0].Denom
	}
	verif.Assert(fwdDenom == c.Denom, "forwarded-denomination-is-the-credited-one")
	e := w.K.ExportGenesis(w.Ctx).DispatcherGenesis
	verif.Assert(len(e.DispatchedAmounts) == 1 && e.DispatchedAmounts[0].Denom == c.Denom && e.DispatchedAmounts[0].AmountDispatched.Incoming.Equal(c.Amount), "recorded-coin-is-the-credited-one")
}

// H_C16_ports: the counterparty's port need not be called like Noble's: the voucher prefix is the packet's SOURCE port and
// channel. Packets to the orbiter account over such channels: accepted only when ICS-20 credits a Noble-native coin, and
// then orbiter acts on exactly that coin.
func H_C16_ports() {
	w := NewWorld(false)
	w.L.Set(escrow, nativeDenom, math.NewInt(1000000))
	port := []string{"transfer", "wasm.noble1counterparty", "icahost"}[verif.Choose("source-port", 3)]
	ch := []string{"channel-7", "mychannel01"}[verif.Choose("source-channel", 2)]
	denom := []string{port + "/" + ch + "/" + nativeDenom, "transfer/" + ch + "/" + nativeDenom, port + "/channel-0/" + nativeDenom, "transfer/channel-0/" + nativeDenom, nativeDenom}[verif.Choose("denom", 5)]
	f, err := fwdtypes.NewInternalForwarding(user1.String())
	must(err)
	pl, err := core.NewPayload(f)
	must(err)
	d := transfertypes.FungibleTokenPacketData{Denom: denom, Amount: "1000", Sender: "sender", Receiver: core.ModuleAddress.String(), Memo: verif.EncodeMemo(&core.PayloadWrapper{Orbiter: pl}, 0)}
	pkt := channeltypes.Packet{Sequence: 1, SourcePort: port, SourceChannel: ch, DestinationPort: "transfer", DestinationChannel: "channel-0", Data: verif.EncodeICS20(d)}
	ack := w.MW.OnRecvPacket(w.Ctx, pkt, relayerAddr)
	returning := denom == port+"/"+ch+"/"+nativeDenom
	if !ack.Success() {
		verif.Cover("refused")
		verif.Assert(!returning, "returning-native-token-is-processed-whatever-the-port-is-called")
		return
	}
	verif.Cover("accepted")
	verif.Assert(returning, "only-tokens-returning-over-the-source-port-and-channel-are-processed")
	verif.Assert(w.App.credited.Denom == nativeDenom && len(w.Int.reqs) == 1 && w.Int.reqs[0].Amount[0].Denom == w.App.credited.Denom && w.Int.reqs[0].Amount[0].Amount.Equal(w.App.credited.Amount), "forwarded-coin-is-the-credited-coin")
}
