package h

import (
	"cosmossdk.io/math"
	sdk "github.com/cosmos/cosmos-sdk/types"

	orbitertypes "github.com/noble-assets/orbiter/v2/types"
	adaptertypes "github.com/noble-assets/orbiter/v2/types/component/adapter"
	dispatchertypes "github.com/noble-assets/orbiter/v2/types/component/dispatcher"
	executortypes "github.com/noble-assets/orbiter/v2/types/component/executor"
	forwardertypes "github.com/noble-assets/orbiter/v2/types/component/forwarder"
	"github.com/noble-assets/orbiter/v2/types/core"
	"github.com/noble-assets/orbiter/v2/zzverif/verif"
)

func init() {
	reg("H_C17_forwarder", H_C17_forwarder)
	reg("H_C17_executor", H_C17_executor)
	reg("H_C17_dispatcher", H_C17_dispatcher)
	reg("H_C17_adapter", H_C17_adapter)
}

// validatedInits: "any genesis accepted by validation can be initialised" (InitGenesis panics on error).
func validatedInits(w *World, g *orbitertypes.GenesisState) {
	if g.Validate() != nil {
		verif.Cover("genesis-rejected")
		return
	}
	verif.Cover("genesis-accepted")
	w.K.InitGenesis(w.Ctx, *g) // a panic here is the violation
	verif.Cover("genesis-initialised")
	// and what was initialised is what the genesis said (export gives it back, as multisets)
	e := w.K.ExportGenesis(w.Ctx)
	verif.Assert(e.Validate() == nil, "exported-genesis-validates")
	verif.Assert(len(e.ForwarderGenesis.PausedProtocolIds) == len(g.ForwarderGenesis.PausedProtocolIds), "export-has-every-paused-protocol")
	verif.Assert(len(e.ForwarderGenesis.PausedCrossChainIds) == len(g.ForwarderGenesis.PausedCrossChainIds), "export-has-every-paused-crosschain")
	verif.Assert(len(e.ExecutorGenesis.PausedActionIds) == len(g.ExecutorGenesis.PausedActionIds), "export-has-every-paused-action")
	verif.Assert(e.AdapterGenesis.Params.MaxPassthroughPayloadSize == g.AdapterGenesis.Params.MaxPassthroughPayloadSize, "export-has-the-params")
}

func symCCID(label string) *core.CrossChainID {
	return &core.CrossChainID{ProtocolId: core.ProtocolID(verif.Int32(label + "-protocol")), CounterpartyId: verif.String(label+"-cp", verif.Bound("strlen"))}
}

func H_C17_forwarder() {
	w := NewWorld(false)
	g := defaultGenesis()
	for i := verif.Choose("protocols", verif.Bound("list")+1); i > 0; i-- {
		g.ForwarderGenesis.PausedProtocolIds = append(g.ForwarderGenesis.PausedProtocolIds, core.ProtocolID(verif.Int32("protocol")))
	}
	for i := verif.Choose("crosschains", verif.Bound("list")+1); i > 0; i-- {
		if verif.Bool("nil-entry") {
			g.ForwarderGenesis.PausedCrossChainIds = append(g.ForwarderGenesis.PausedCrossChainIds, nil)
		} else {
			g.ForwarderGenesis.PausedCrossChainIds = append(g.ForwarderGenesis.PausedCrossChainIds, symCCID("cc"))
		}
	}
	validatedInits(w, g)
}

func H_C17_executor() {
	w := NewWorld(false)
	g := defaultGenesis()
	for i := verif.Choose("actions", verif.Bound("list")+1); i > 0; i-- {
		g.ExecutorGenesis.PausedActionIds = append(g.ExecutorGenesis.PausedActionIds, core.ActionID(verif.Int32("action")))
	}
	validatedInits(w, g)
}

func H_C17_adapter() {
	w := NewWorld(false)
	g := defaultGenesis()
	switch verif.Choose("adapter", 3) {
	case 0:
		g.AdapterGenesis = nil
	case 1:
		g.AdapterGenesis = &adaptertypes.GenesisState{Params: adaptertypes.Params{MaxPassthroughPayloadSize: verif.Uint32("limit")}}
	}
	switch verif.Choose("nil-component", 4) {
	case 0:
		g.DispatcherGenesis = nil
	case 1:
		g.ForwarderGenesis = nil
	case 2:
		g.ExecutorGenesis = nil
	}
	_ = executortypes.DefaultGenesisState
	_ = forwardertypes.DefaultGenesisState
	validatedInits(w, g)
}

func H_C17_dispatcher() {
	w := NewWorld(false)
	g := defaultGenesis()
	for i := verif.Choose("amounts", verif.Bound("entries")+1); i > 0; i-- {
		e := dispatchertypes.DispatchedAmountEntry{Denom: verif.String("denom", verif.Bound("denomlen"))}
		if !verif.Bool("nil-source") {
			e.SourceId = symCCID("src")
		}
		if !verif.Bool("nil-destination") {
			e.DestinationId = symCCID("dst")
		}
		e.AmountDispatched = dispatchertypes.AmountDispatched{Incoming: verif.BigInt("incoming"), Outgoing: verif.BigInt("outgoing")}
		g.DispatcherGenesis.DispatchedAmounts = append(g.DispatcherGenesis.DispatchedAmounts, e)
	}
	for i := verif.Choose("counts", verif.Bound("entries")+1); i > 0; i-- {
		e := dispatchertypes.DispatchCountEntry{Count: verif.Uint64("count")}
		if !verif.Bool("nil-source") {
			e.SourceId = symCCID("csrc")
		}
		if !verif.Bool("nil-destination") {
			e.DestinationId = symCCID("cdst")
		}
		g.DispatcherGenesis.DispatchedCounts = append(g.DispatcherGenesis.DispatchedCounts, e)
	}
	_ = math.ZeroInt
	validatedInits(w, g)
}

// ---- export / import round trip -------------------------------------------------------------------------------------------

func hasProtocol(l []core.ProtocolID, x core.ProtocolID) int {
	n := 0
	for _, y := range l {
		if y == x {
			n++
		}
	}
	return n
}

func sameGenesis(a, b *orbitertypes.GenesisState, label string) {
	verif.Assert(a.AdapterGenesis.Params.MaxPassthroughPayloadSize == b.AdapterGenesis.Params.MaxPassthroughPayloadSize, label+"-params")
	fa, fb := a.ForwarderGenesis, b.ForwarderGenesis
	verif.Assert(len(fa.PausedProtocolIds) == len(fb.PausedProtocolIds), label+"-paused-protocols-count")
	for _, x := range fa.PausedProtocolIds {
		verif.Assert(hasProtocol(fb.PausedProtocolIds, x) == 1, label+"-paused-protocols")
	}
	verif.Assert(len(fa.PausedCrossChainIds) == len(fb.PausedCrossChainIds), label+"-paused-crosschains-count")
	for _, x := range fa.PausedCrossChainIds {
		n := 0
		for _, y := range fb.PausedCrossChainIds {
			if x.ProtocolId == y.ProtocolId && x.CounterpartyId == y.CounterpartyId {
				n++
			}
		}
		verif.Assert(n == 1, label+"-paused-crosschains")
	}
	ea, eb := a.ExecutorGenesis, b.ExecutorGenesis
	verif.Assert(len(ea.PausedActionIds) == len(eb.PausedActionIds), label+"-paused-actions-count")
	for _, x := range ea.PausedActionIds {
		n := 0
		for _, y := range eb.PausedActionIds {
			if x == y {
				n++
			}
		}
		verif.Assert(n == 1, label+"-paused-actions")
	}
	da, db := a.DispatcherGenesis, b.DispatcherGenesis
	verif.Assert(len(da.DispatchedAmounts) == len(db.DispatchedAmounts), label+"-amounts-count")
	for _, x := range da.DispatchedAmounts {
		n := 0
		for _, y := range db.DispatchedAmounts {
			if x.SourceId.ProtocolId == y.SourceId.ProtocolId && x.SourceId.CounterpartyId == y.SourceId.CounterpartyId &&
				x.DestinationId.ProtocolId == y.DestinationId.ProtocolId && x.DestinationId.CounterpartyId == y.DestinationId.CounterpartyId &&
				x.Denom == y.Denom {
				n++
				verif.Assert(x.AmountDispatched.Incoming.Equal(y.AmountDispatched.Incoming) && x.AmountDispatched.Outgoing.Equal(y.AmountDispatched.Outgoing), label+"-amount-totals")
			}
		}
		verif.Assert(n == 1, label+"-amounts")
	}
	verif.Assert(len(da.DispatchedCounts) == len(db.DispatchedCounts), label+"-counts-count")
	for _, x := range da.DispatchedCounts {
		n := 0
		for _, y := range db.DispatchedCounts {
			if x.SourceId.ProtocolId == y.SourceId.ProtocolId && x.SourceId.CounterpartyId == y.SourceId.CounterpartyId &&
				x.DestinationId.ProtocolId == y.DestinationId.ProtocolId && x.DestinationId.CounterpartyId == y.DestinationId.CounterpartyId {
				n++
				verif.Assert(x.Count == y.Count, label+"-count-value")
			}
		}
		verif.Assert(n == 1, label+"-counts")
	}
}

func init() { reg("H_C17_roundtrip", H_C17_roundtrip) }

// transferVia sends A uusdc through the dispatcher of w over the given route (0 CCTP domain 7, 1 Hyperlane domain 9, 2 internal).
func transferVia(w *World, route int, A math.Int, withFee bool) error {
	return transferViaIn(w, route, A, withFee, nativeDenom)
}

func transferViaIn(w *World, route int, A math.Int, withFee bool, denom string) error {
	var f *core.Forwarding
	var err error
	switch route {
	case 0:
		f, err = fwdtypesNewCCTP(7)
	case 1:
		f, err = fwdtypesNewHyp(9)
	default:
		f, err = fwdtypesNewInternal()
	}
	must(err)
	var acts []*core.Action
	if withFee {
		acts = append(acts, feeAction(100))
	}
	pl, err := core.NewPayload(f, acts...)
	must(err)
	ta, err := core.NewTransferAttributes(core.PROTOCOL_IBC, "channel-0", denom, A)
	if err != nil {
		return err
	}
	w.L.Set(core.ModuleAddress, denom, A)
	return w.K.Dispatcher().DispatchPayload(w.Ctx, ta, pl)
}

// H_C17_roundtrip: a history of admin messages and transfers from the empty state; export; validate; initialise a fresh
// module; re-export equals the export; both modules then treat one more admin message and one more transfer identically.
func H_C17_roundtrip() {
	w := NewWorld(false)
	fw, ex := w.K.Forwarder(), w.K.Executor()
	for s := 0; s < verif.Bound("steps"); s++ {
		switch verif.Choose("op", 6) {
		case 0:
			_ = fw.Pause(w.Ctx, core.ProtocolID(1+verif.Choose("protocol", 4)), nil)
		case 1:
			p := core.ProtocolID(1 + verif.Choose("protocol", 4))
			_ = verif.Atomically(w.Ctx, func(ctx sdk.Context) error { return fw.Pause(ctx, p, []string{cpFor(p, "cp")}) })
		case 2:
			_ = ex.Pause(w.Ctx, core.ActionID(1+verif.Choose("action", 2)))
		case 3:
			must(w.K.Adapter().SetParams(w.Ctx, adaptertypes.Params{MaxPassthroughPayloadSize: verif.Uint32("limit")}))
		case 4:
			A := math.NewInt(int64(1 + 4999*verif.Choose("A", 2))) // (all amounts: C12)
			_ = transferVia(w, verif.Choose("route", 3), A, verif.Bool("with-fee"))
		case 5:
			_ = fw.Unpause(w.Ctx, core.ProtocolID(1+verif.Choose("protocol", 4)), nil)
		}
	}
	g := w.K.ExportGenesis(w.Ctx)
	verif.Assert(g.Validate() == nil, "exported-genesis-validates")
	if g.Validate() != nil {
		return
	}
	w2 := NewWorld(false)
	w2.K.InitGenesis(w2.Ctx, *g) // panics on error
	verif.Cover("re-initialised")
	g2 := w2.K.ExportGenesis(w2.Ctx)
	sameGenesis(g, g2, "re-export")
	sameGenesis(g2, g, "re-export-reverse")
	// both behave identically afterwards: same enforcement, statistics continue from the same totals
	route, fee := verif.Choose("probe-route", 3), verif.Bool("probe-fee")
	B := math.NewInt(5000)
	e1 := transferVia(w, route, B, fee)
	e2 := transferVia(w2, route, B, fee)
	verif.Assert((e1 == nil) == (e2 == nil), "same-enforcement-after-import")
	sameGenesis(w.K.ExportGenesis(w.Ctx), w2.K.ExportGenesis(w2.Ctx), "after-probe")
}
