package h

import (
	"encoding/json"
	"fmt"
	"os"
	"testing"

	sdk "github.com/cosmos/cosmos-sdk/types"

	"github.com/noble-assets/orbiter/v2/types/core"
	"github.com/noble-assets/orbiter/v2/zzverif/verif"
)

type batchItem struct {
	Lenient bool           `json:"lenient"`
	Seed    int64          `json:"seed"`
	ID      int            `json:"id"`
	Harness string         `json:"harness"`
	Tier    string         `json:"tier"`
	Bounds  map[string]int `json:"bounds"`
	Witness []verif.Draw   `json:"witness"`
}

// TestReplayBatch runs harnesses natively on witnesses produced by the engine.
func TestReplayBatch(t *testing.T) {
	b, err := os.ReadFile(os.Getenv("GOSX_BATCH"))
	if err != nil {
		t.Skip("no batch")
	}
	var items []batchItem
	if err := json.Unmarshal(b, &items); err != nil {
		t.Fatal(err)
	}
	for _, it := range items {
		fmt.Println("RUN", it.ID)
		fn := harnesses[it.Harness]
		if fn == nil {
			fmt.Println("TRACE PANIC unknown harness", it.Harness)
			fmt.Println("END", it.ID)
			continue
		}
		verif.Reset(it.Witness, it.Tier, it.Bounds)
		verif.Lenient, verif.LenientSeed = it.Lenient, it.Seed
		func() {
			defer func() {
				if r := recover(); r != nil {
					if _, ok := r.(verif.AssumeFalse); ok {
						return
					}
					if d, ok := r.(verif.Diverged); ok {
						fmt.Println("TRACE DIVERGED", d.Msg)
						return
					}
					fmt.Println("TRACE PANIC", r)
				}
			}()
			fn()
		}()
		fmt.Println("END", it.ID)
	}
}

// TestDumpConstants prints values that need real cryptography / SDK configuration, for the engine.
func TestDumpConstants(t *testing.T) {
	fmt.Println("CONST bech32_prefix=" + sdk.GetConfig().GetBech32AccountAddrPrefix())
	fmt.Println("CONST module_address=" + core.ModuleAddress.String())
	fmt.Println("CONST dust_collector=" + core.DustCollectorName)
}
