package h

// C19 — processing is deterministic: the same history replayed on a fresh instance produces the same acknowledgements
// (error text included: orbiter commits the full text), the same events in the same order, the same bank movements and
// bridge requests in the same order, the same query answers and the same exported state.
//
// Every harness runs one drawn history on two freshly wired modules inside one execution. For the engine the things Go
// leaves open from run to run are symbolic inputs of the second run: the iteration order of every map range (a fork per
// order, verif.Schedule), every reading of the clock and of a random source (fresh values), and the address of every
// object a formatted text would print (named by its allocation, so the two runs never agree on it); package-level
// variables are shared by the two runs as they are inside one process. Natively the second run is repeated
// (verif.Retries) because Go randomises map iteration per range statement.

import (
	"cosmossdk.io/math"
	sdk "github.com/cosmos/cosmos-sdk/types"
	banktypes "github.com/cosmos/cosmos-sdk/x/bank/types"
	transfertypes "github.com/cosmos/ibc-go/v8/modules/apps/transfer/types"
	ibcexported "github.com/cosmos/ibc-go/v8/modules/core/exported"
	"google.golang.org/protobuf/runtime/protoiface"

	warptypes "github.com/bcp-innovations/hyperlane-cosmos/x/warp/types"

	adaptercomp "github.com/noble-assets/orbiter/v2/keeper/component/adapter"
	executorcomp "github.com/noble-assets/orbiter/v2/keeper/component/executor"
	forwardercomp "github.com/noble-assets/orbiter/v2/keeper/component/forwarder"
	orbitertypes "github.com/noble-assets/orbiter/v2/types"
	adaptertypes "github.com/noble-assets/orbiter/v2/types/component/adapter"
	executortypes "github.com/noble-assets/orbiter/v2/types/component/executor"
	forwardertypes "github.com/noble-assets/orbiter/v2/types/component/forwarder"
	actiontypes "github.com/noble-assets/orbiter/v2/types/controller/action"
	fwdtypes "github.com/noble-assets/orbiter/v2/types/controller/forwarding"
	"github.com/noble-assets/orbiter/v2/types/core"
	"github.com/noble-assets/orbiter/v2/zzverif/verif"
)

func init() {
	reg("H_C19_replay", H_C19_replay)
	reg("H_C19_refusals", H_C19_refusals)
	reg("H_C19_fees", H_C19_fees)
	reg("H_C19_shapes", H_C19_shapes)
	reg("H_C19_fwd_shapes", H_C19_fwd_shapes)
	reg("H_C19_admin", H_C19_admin)
}

// outcome: everything a replaying node could compare.
type outcome struct {
	acks     []ibcexported.Acknowledgement
	success  []bool
	errs     []string // error texts of messages and queries ("" = no error)
	answers  []any    // query answers
	events   []protoiface.MessageV1
	sends    []sendRec
	cctp     []cctpReq
	hyp      []*warptypes.MsgRemoteTransfer
	internal []*banktypes.MsgSend
	genesis  *orbitertypes.GenesisState
}

func (o *outcome) collect(w *World) {
	o.events = w.Ev.list
	o.sends = w.L.sends
	o.cctp, o.hyp, o.internal = w.CCTP.reqs, w.Hyp.reqs, w.Int.reqs
	o.genesis = w.K.ExportGenesis(w.Ctx)
}

func (o *outcome) ack(a ibcexported.Acknowledgement) {
	o.acks = append(o.acks, a)
	o.success = append(o.success, a.Success())
}

func (o *outcome) err(e error) {
	if e == nil {
		o.errs = append(o.errs, "")
	} else {
		o.errs = append(o.errs, e.Error())
	}
}

var c19Labels = []string{
	"same-acknowledgement-class", "same-acknowledgement-bytes-including-error-text", "same-error-texts", "same-query-answers",
	"same-events-in-the-same-order", "same-bank-movements-in-the-same-order", "same-bridge-requests", "same-exported-state",
}

func (o *outcome) part(k int) any {
	switch k {
	case 0:
		return o.success
	case 1:
		return o.acks
	case 2:
		return o.errs
	case 3:
		return o.answers
	case 4:
		return o.events
	case 5:
		return o.sends
	case 6:
		return []any{o.cctp, o.hyp, o.internal}
	}
	return o.genesis
}

// replayTwice runs the history on a fresh instance, then again (natively: again and again) with the schedule released,
// and asserts that nothing observable differs.
func replayTwice(run func() *outcome) {
	replayTwiceOn(func(bool) *outcome { return run() }, false)
}

// replayTwiceOn: the second node may, besides the history, have served activity that is NOT part of the history and leaves
// no trace in the committed state (a transaction that was simulated or failed and was discarded, reads inside it): run
// gets true for that node.
func replayTwiceOn(run func(extra bool) *outcome, withExtra bool) {
	extra := withExtra && verif.Bool("the-second-node-also-served-a-discarded-transaction")
	o1 := run(false)
	var same [8]bool
	for k := range same {
		same[k] = true
	}
	verif.Schedule(true)
	n := verif.Retries(24)
	for i := 0; i < n; i++ {
		if i > 0 {
			verif.Mute(true)
		}
		o2 := run(extra)
		for k := range same {
			same[k] = same[k] && verif.Same(o1.part(k), o2.part(k))
		}
	}
	verif.Mute(false)
	verif.Schedule(false)
	for k := range same {
		verif.Assert(same[k], c19Labels[k])
	}
}

// H_C19_replay: one drawn packet (harness R: any receiver kind, denomination class, amount, memo class, route, fees, prior
// state incl. pauses and an earlier transfer) — refused ones included, whose error text is committed.
// H_C19_refusals: the same with the refusal classes of the prior state (paused protocol / pair / action, passthrough limit,
// denomination classes, malformed amounts).
func H_C19_refusals() { H_C19_replay() }

// H_C19_fees: fee lists of up to three entries (the first and the third to the same recipient, another in between): the
// order of the payments and of their events.
func H_C19_fees() {
	// three or four fee entries over three recipients, any of them repeated (validation allows it), fixed amounts and bps;
	// optionally the module cannot pay (the sweep of the transferred denomination empties the account first: never the
	// case here) or a recipient is malformed (which entry's error is reported)
	rcps := []string{feeR1.String(), feeR2.String(), "noble1nope"}
	n := 3
	var infos []*actiontypes.FeeInfo
	for i := 0; i < n; i++ {
		fi := &actiontypes.FeeInfo{Recipient: rcps[verif.Choose("fee-recipient", len(rcps))]}
		if verif.Bool("fee-is-bps") {
			fi.FeeType = &actiontypes.FeeInfo_BasisPoints_{BasisPoints: &actiontypes.FeeInfo_BasisPoints{Value: uint32(100 * (i + 1))}}
		} else {
			fi.FeeType = &actiontypes.FeeInfo_Amount_{Amount: &actiontypes.FeeInfo_Amount{Value: []string{"10", "20", "30", "40"}[i]}}
		}
		infos = append(infos, fi)
	}
	a := &core.Action{Id: core.ACTION_FEE}
	must(a.SetAttributes(&actiontypes.FeeAttributes{FeesInfo: infos}))
	f, err := fwdtypes.NewInternalForwarding(user1.String())
	must(err)
	pl := &core.Payload{Forwarding: f, PreActions: []*core.Action{a}}
	replayTwice(func() *outcome {
		o := &outcome{}
		w := NewWorld(false)
		w.L.Set(escrow, nativeDenom, math.NewInt(5000))
		ack := w.Recv(orbiterData(math.NewInt(1000), pl))
		o.ack(ack)
		if ack.Success() {
			verif.Cover("success-ack")
		} else {
			verif.Cover("error-ack")
		}
		o.collect(w)
		return o
	})
}

func H_C19_replay() {
	s := drawScenario()
	second := verif.Bool("a-second-packet-follows")
	if second && !s.amountNaN && s.amountStr == "" {
		// (two deliveries of the amount: total supply and the recorded totals stay below 2^256 — bank invariant)
		verif.Assume(s.A.LT(math.NewIntWithDecimal(1, 70)) && s.escrowBal.LT(math.NewIntWithDecimal(1, 70)))
	}
	replayTwice(func() *outcome {
		o := &outcome{}
		w := NewWorld(false)
		s.apply(w, true)
		a := w.Recv(s.data())
		o.ack(a)
		if a.Success() {
			verif.Cover("success-ack")
		} else {
			verif.Cover("error-ack")
		}
		if second {
			// the same packet again (sequence 2): now on the state the first one left
			w.L.Set(escrow, nativeDenom, s.escrowBal)
			p := packetOf(verif.EncodeICS20(s.data()))
			p.Sequence = 2
			o.ack(w.MW.OnRecvPacket(w.Ctx, p, relayerAddr))
		}
		o.collect(w)
		return o
	})
}

// H_C19_shapes: payloads of arbitrary decoded shape (several malformed actions at once, unknown identifiers, attributes of
// the wrong type, malformed forwarding attributes) addressed to the orbiter account: which error is reported, and its text.
func H_C19_fwd_shapes() { H_C19_shapes() }

func H_C19_shapes() {
	p := anyShapePayload()
	verif.Assume(p != nil)
	A := math.NewInt(1000)
	replayTwice(func() *outcome {
		o := &outcome{}
		w := NewWorld(false)
		w.L.Set(escrow, nativeDenom, math.NewInt(5000))
		d := transfertypes.FungibleTokenPacketData{Denom: voucherOnSender, Amount: A.String(), Sender: "sender", Receiver: core.ModuleAddress.String(),
			Memo: verif.EncodeMemo(&core.PayloadWrapper{Orbiter: p}, 0)}
		a := w.Recv(d)
		o.ack(a)
		if a.Success() {
			verif.Cover("success-ack")
		} else {
			verif.Cover("error-ack")
		}
		// the validation result itself (what a CheckTx / a client library would report)
		o.err(p.Validate())
		o.collect(w)
		return o
	})
}

// H_C19_admin: a short history of admin messages (accepted and refused ones: the refusal text is returned to the client and
// logged in the transaction result), the listings, and the exported state.
func H_C19_admin() {
	type step struct {
		kind, name, nb int
		ids            []string
	}
	// first a batch pause (two identifiers: valid, redundant inside the batch, non-canonical, of another protocol's form),
	// then one message of any kind
	cps := []string{"5", "12", "05", "noble"}
	names := []int{1, 2, 5} // CCTP, Hyperlane, and a name that is no protocol
	var steps []step
	first := step{kind: 2, name: names[verif.Choose("first-name", 3)], nb: 2}
	for j := 0; j < 2; j++ {
		first.ids = append(first.ids, cps[verif.Choose("cp", len(cps))])
	}
	steps = append(steps, first)
	for i := 1; i < verif.Bound("steps"); i++ {
		st := step{kind: verif.Choose("msg-kind", 7), name: names[verif.Choose("msg-name", 3)]}
		if st.kind >= 2 && st.kind <= 3 {
			st.nb, st.ids = 2, []string{"12", "5"}
		}
		steps = append(steps, st)
	}
	limit := verif.Uint32("limit")
	stranger := verif.Bool("signed-by-someone-else")
	prePaused := verif.Bool("two-protocols-already-paused") // (listings and exports of SEVERAL entries: their order)
	replayTwiceOn(func(extra bool) *outcome {
		o := &outcome{}
		w := NewWorld(false)
		fms := forwardercomp.NewMsgServer(w.K.Forwarder(), w.K)
		fqs := forwardercomp.NewQueryServer(w.K.Forwarder())
		ems := executorcomp.NewMsgServer(w.K.Executor(), w.K)
		eqs := executorcomp.NewQueryServer(w.K.Executor())
		ams := adaptercomp.NewMsgServer(w.K.Adapter(), w.K)
		signer := authorityAddr.String()
		if stranger {
			signer = user1.String()
		}
		if prePaused {
			must(w.K.Forwarder().SetPausedProtocol(w.Ctx, core.PROTOCOL_INTERNAL))
			must(w.K.Forwarder().SetPausedProtocol(w.Ctx, core.PROTOCOL_HYPERLANE))
			must(w.K.Executor().SetPausedAction(w.Ctx, core.ACTION_SWAP))
		}
		for _, st := range steps {
			name := protoNames[st.name]
			var err error
			switch st.kind {
			case 0:
				err = verif.Atomically(w.Ctx, func(ctx sdk.Context) error {
					_, e := fms.PauseProtocol(ctx, &forwardertypes.MsgPauseProtocol{Signer: signer, ProtocolId: name})
					return e
				})
			case 1:
				err = verif.Atomically(w.Ctx, func(ctx sdk.Context) error {
					_, e := fms.UnpauseProtocol(ctx, &forwardertypes.MsgUnpauseProtocol{Signer: signer, ProtocolId: name})
					return e
				})
			case 2:
				err = verif.Atomically(w.Ctx, func(ctx sdk.Context) error {
					_, e := fms.PauseCrossChains(ctx, &forwardertypes.MsgPauseCrossChains{Signer: signer, ProtocolId: name, CounterpartyIds: st.ids})
					return e
				})
			case 3:
				err = verif.Atomically(w.Ctx, func(ctx sdk.Context) error {
					_, e := fms.UnpauseCrossChains(ctx, &forwardertypes.MsgUnpauseCrossChains{Signer: signer, ProtocolId: name, CounterpartyIds: st.ids})
					return e
				})
			case 4:
				err = verif.Atomically(w.Ctx, func(ctx sdk.Context) error {
					_, e := ems.PauseAction(ctx, &executortypes.MsgPauseAction{Signer: signer, ActionId: actionNames[st.name%len(actionNames)]})
					return e
				})
			case 5:
				err = verif.Atomically(w.Ctx, func(ctx sdk.Context) error {
					_, e := ems.UnpauseAction(ctx, &executortypes.MsgUnpauseAction{Signer: signer, ActionId: actionNames[st.name%len(actionNames)]})
					return e
				})
			default:
				err = verif.Atomically(w.Ctx, func(ctx sdk.Context) error {
					_, e := ams.UpdateParams(ctx, &adaptertypes.MsgUpdateParams{Signer: signer, Params: adaptertypes.Params{MaxPassthroughPayloadSize: limit}})
					return e
				})
			}
			o.err(err)
			if err == nil {
				verif.Cover("message-accepted")
			} else {
				verif.Cover("message-refused")
			}
		}
		if extra {
			// not part of the history: a transaction that succeeds message by message, reads what it wrote, and is discarded
			aqs := adaptercomp.NewQueryServer(w.K.Adapter())
			ev0 := w.Ev.list // (the event manager of a discarded transaction is discarded with it)
			_ = verif.Atomically(w.Ctx, func(ctx sdk.Context) error {
				_, e1 := ams.UpdateParams(ctx, &adaptertypes.MsgUpdateParams{Signer: authorityAddr.String(), Params: adaptertypes.Params{MaxPassthroughPayloadSize: limit + 100}})
				_, e2 := aqs.Params(ctx, &adaptertypes.QueryParamsRequest{})
				_, e3 := fms.PauseProtocol(ctx, &forwardertypes.MsgPauseProtocol{Signer: authorityAddr.String(), ProtocolId: "PROTOCOL_CCTP"})
				_, e4 := fms.UnpauseProtocol(ctx, &forwardertypes.MsgUnpauseProtocol{Signer: authorityAddr.String(), ProtocolId: "PROTOCOL_HYPERLANE"})
				_, e5 := ems.PauseAction(ctx, &executortypes.MsgPauseAction{Signer: authorityAddr.String(), ActionId: "ACTION_FEE"})
				_, _, _, _, _ = e1, e2, e3, e4, e5
				return errRevert
			})
			w.Ev.list = ev0
			verif.Cover("discarded-transaction-served")
		}
		// the listings, in the order they are returned
		pp, err := fqs.PausedProtocols(w.Ctx, &forwardertypes.QueryPausedProtocolsRequest{})
		o.err(err)
		o.answers = append(o.answers, pp)
		for _, n := range []string{"PROTOCOL_CCTP", "PROTOCOL_HYPERLANE", "PROTOCOL_INTERNAL", "PROTOCOL_IBC"} {
			pc, err := fqs.PausedCrossChains(w.Ctx, &forwardertypes.QueryPausedCrossChainsRequest{ProtocolId: n})
			o.err(err)
			o.answers = append(o.answers, pc)
		}
		pa, err := eqs.PausedActions(w.Ctx, &executortypes.QueryPausedActionsRequest{})
		o.err(err)
		o.answers = append(o.answers, pa)
		// a transfer on the resulting state (refused with the pause's text, or executed)
		w.L.Set(escrow, nativeDenom, math.NewInt(5000))
		f, ferr := fwdtypes.NewCCTPForwarding(5, make([]byte, 32), nil, make([]byte, 16)) // (a passthrough payload: refused unless the limit in force allows 16 bytes)
		must(ferr)
		pl, perr := core.NewPayload(f, feeAction(100))
		must(perr)
		o.ack(w.Recv(orbiterData(math.NewInt(1000), pl)))
		o.collect(w)
		return o
	}, true)
}
