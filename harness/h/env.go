package h

// Environment models (DESIGN.md §2.6). Plain Go: executed symbolically by the engine and natively on replay.
// All nondeterminism comes from verif.* draws.

import (
	"context"
	"errors"

	"cosmossdk.io/core/event"
	"cosmossdk.io/log"
	"cosmossdk.io/math"
	sdk "github.com/cosmos/cosmos-sdk/types"
	authtypes "github.com/cosmos/cosmos-sdk/x/auth/types"
	"google.golang.org/protobuf/runtime/protoiface"

	"github.com/noble-assets/orbiter/v2/types/core"
	"github.com/noble-assets/orbiter/v2/zzverif/verif"
)

// ---- logger: no-op, but call arguments are still evaluated by the caller ----------------------

type nopLogger struct{}

func (nopLogger) Info(string, ...any)    {}
func (nopLogger) Warn(string, ...any)    {}
func (nopLogger) Error(string, ...any)   {}
func (nopLogger) Debug(string, ...any)   {}
func (nopLogger) With(...any) log.Logger { return nopLogger{} }
func (nopLogger) Impl() any              { return nil }

// ---- event service: records events in order; Emit may fail when faults are on ------------------

type events struct {
	faults bool
	failed int
	list   []protoiface.MessageV1
}

func (e *events) EventManager(context.Context) event.Manager { return evMgr{e} }

type evMgr struct{ e *events }

func (m evMgr) Emit(_ context.Context, ev protoiface.MessageV1) error {
	if m.e.faults && verif.Bool("fault-emit") {
		m.e.failed++
		return errors.New("injected: emit failed")
	}
	m.e.list = append(m.e.list, ev)
	return nil
}
func (m evMgr) EmitKV(context.Context, string, ...event.Attribute) error { return nil }
func (m evMgr) EmitNonConsensus(_ context.Context, ev protoiface.MessageV1) error {
	return nil
}

// ---- ledger: bank keeper model ------------------------------------------------------------------

type entry struct {
	addr, denom string
	amt         math.Int
}

type sendRec struct {
	from, to string
	denom    string
	amt      math.Int
}

// Ledger implements types.BankKeeper and actiontypes.BankKeeperFee and serves the bridge models.
// Keeper-level sends have no blocked-address check (as x/bank); module names resolve to their addresses.
// When the ledger belongs to a World (root context set) its balances live in the context's store (verif.SideGet/Set), so
// that a branch of the store — inside the module or around it — carries the bank state with it, as on a chain where
// x/bank shares the multistore. Stand-alone ledgers (root nil) keep them in memory.
type Ledger struct {
	root   context.Context
	e      []entry
	supply []entry // addr unused
	faults bool
	failed int // injected failures that happened
	sends  []sendRec
	reads  int
}

func (l *Ledger) idx(addr sdk.AccAddress, denom string) int {
	for i := range l.e {
		if l.e[i].addr == string(addr) && l.e[i].denom == denom {
			return i
		}
	}
	l.e = append(l.e, entry{string(addr), denom, math.ZeroInt()})
	return len(l.e) - 1
}

// (the index is computed first: idx may grow l.e, and Go leaves the order of "read l.e" and "call idx" open)
func sideKeyOf(addr sdk.AccAddress, denom string) string { return string(addr) + "|" + denom }

// balIn / setIn: the balance as seen from ctx (nil: the ledger's root context, or memory for a stand-alone ledger)
func (l *Ledger) balIn(ctx context.Context, addr sdk.AccAddress, denom string) math.Int {
	if l.root == nil {
		i := l.idx(addr, denom)
		return l.e[i].amt
	}
	if ctx == nil {
		ctx = l.root
	}
	return verif.SideGet(ctx, sideKeyOf(addr, denom))
}

func (l *Ledger) setIn(ctx context.Context, addr sdk.AccAddress, denom string, amt math.Int) {
	if l.root == nil {
		i := l.idx(addr, denom)
		l.e[i].amt = amt
		return
	}
	if ctx == nil {
		ctx = l.root
	}
	verif.SideSet(ctx, sideKeyOf(addr, denom), amt)
}

func (l *Ledger) Bal(addr sdk.AccAddress, denom string) math.Int      { return l.balIn(nil, addr, denom) }
func (l *Ledger) Set(addr sdk.AccAddress, denom string, amt math.Int) { l.setIn(nil, addr, denom, amt) }

func (l *Ledger) GetBalance(ctx context.Context, addr sdk.AccAddress, denom string) sdk.Coin {
	l.reads++
	return sdk.Coin{Denom: denom, Amount: l.balIn(ctx, addr, denom)}
}

func (l *Ledger) move(from, to sdk.AccAddress, amt sdk.Coins) error { return l.moveIn(nil, from, to, amt) }

func (l *Ledger) moveIn(ctx context.Context, from, to sdk.AccAddress, amt sdk.Coins) error {
	for _, c := range amt {
		if l.balIn(ctx, from, c.Denom).LT(c.Amount) {
			return errors.New("insufficient funds")
		}
	}
	for _, c := range amt {
		l.setIn(ctx, from, c.Denom, l.balIn(ctx, from, c.Denom).Sub(c.Amount))
		l.setIn(ctx, to, c.Denom, l.balIn(ctx, to, c.Denom).Add(c.Amount))
		l.sends = append(l.sends, sendRec{string(from), string(to), c.Denom, c.Amount})
	}
	return nil
}

func (l *Ledger) SendCoins(ctx context.Context, from, to sdk.AccAddress, amt sdk.Coins) error {
	if l.faults && verif.Bool("fault-sendcoins") {
		l.failed++
		return errors.New("injected: SendCoins failed")
	}
	return l.moveIn(ctx, from, to, amt)
}

func modAddr(name string) sdk.AccAddress {
	if name == core.ModuleName {
		return core.ModuleAddress
	}
	return authtypes.NewModuleAddress(name)
}

func (l *Ledger) SendCoinsFromModuleToModule(ctx context.Context, from, to string, amt sdk.Coins) error {
	if l.faults && verif.Bool("fault-module-to-module") {
		l.failed++
		return errors.New("injected: SendCoinsFromModuleToModule failed")
	}
	return l.moveIn(ctx, modAddr(from), modAddr(to), amt)
}

// fixed accounts used by the harnesses
var (
	user1  = sdk.AccAddress([]byte{1, 1, 1, 1, 1, 1, 1, 1, 1, 1, 1, 1, 1, 1, 1, 1, 1, 1, 1, 1})
	user2  = sdk.AccAddress([]byte{2, 2, 2, 2, 2, 2, 2, 2, 2, 2, 2, 2, 2, 2, 2, 2, 2, 2, 2, 2})
	feeR1  = sdk.AccAddress([]byte{3, 3, 3, 3, 3, 3, 3, 3, 3, 3, 3, 3, 3, 3, 3, 3, 3, 3, 3, 3})
	feeR2  = sdk.AccAddress([]byte{4, 4, 4, 4, 4, 4, 4, 4, 4, 4, 4, 4, 4, 4, 4, 4, 4, 4, 4, 4})
	escrow = sdk.AccAddress([]byte{9, 9, 9, 9, 9, 9, 9, 9, 9, 9, 9, 9, 9, 9, 9, 9, 9, 9, 9, 9})
)
