package h

import (
	"cosmossdk.io/math"

	forwardercomp "github.com/noble-assets/orbiter/v2/keeper/component/forwarder"
	dispatchertypes "github.com/noble-assets/orbiter/v2/types/component/dispatcher"
	forwardertypes "github.com/noble-assets/orbiter/v2/types/component/forwarder"
	"github.com/noble-assets/orbiter/v2/types/core"
	"github.com/noble-assets/orbiter/v2/zzverif/verif"
)

func init() {
	reg("H_C20_entrypoints", H_C20_entrypoints)
	reg("H_C17_boundary", H_C17_boundary)
}

// H_C20_entrypoints: the property is about what the ENTRY POINTS accept, not about one validator function: a CCTP /
// Hyperlane counterparty string accepted by a pause message, by the pause query, or by any entry of a genesis document
// (paused pair, source or destination of an amount entry or of a count entry) is the canonical decimal form of a 32-bit
// number. Every entry point is driven with the same arbitrary string.
func H_C20_entrypoints() {
	w := NewWorld(false)
	p := []core.ProtocolID{core.PROTOCOL_CCTP, core.PROTOCOL_HYPERLANE}[verif.Choose("protocol", 2)]
	s := verif.String("cp", verif.Bound("strlen"))
	id := &core.CrossChainID{ProtocolId: p, CounterpartyId: s}
	good := &core.CrossChainID{ProtocolId: core.PROTOCOL_IBC, CounterpartyId: "channel-0"}
	accepted := false
	switch verif.Choose("entry-point", 7) {
	case 0:
		ms := forwardercomp.NewMsgServer(w.K.Forwarder(), w.K)
		_, err := ms.PauseCrossChains(w.Ctx, &forwardertypes.MsgPauseCrossChains{Signer: authorityAddr.String(), ProtocolId: p.String(), CounterpartyIds: []string{s}})
		accepted = err == nil
	case 1:
		qs := forwardercomp.NewQueryServer(w.K.Forwarder())
		_, err := qs.IsCrossChainPaused(w.Ctx, &forwardertypes.QueryIsCrossChainPausedRequest{ProtocolId: p.String(), CounterpartyId: s})
		accepted = err == nil
	case 2:
		g := defaultGenesis()
		g.ForwarderGenesis.PausedCrossChainIds = append(g.ForwarderGenesis.PausedCrossChainIds, id)
		accepted = g.Validate() == nil
	case 3:
		g := defaultGenesis()
		g.DispatcherGenesis.DispatchedAmounts = append(g.DispatcherGenesis.DispatchedAmounts, dispatchertypes.DispatchedAmountEntry{SourceId: good, DestinationId: id, Denom: "uusdc",
			AmountDispatched: dispatchertypes.AmountDispatched{Incoming: math.NewInt(5), Outgoing: math.NewInt(4)}})
		accepted = g.Validate() == nil
	case 4:
		g := defaultGenesis()
		g.DispatcherGenesis.DispatchedAmounts = append(g.DispatcherGenesis.DispatchedAmounts, dispatchertypes.DispatchedAmountEntry{SourceId: id, DestinationId: good, Denom: "uusdc",
			AmountDispatched: dispatchertypes.AmountDispatched{Incoming: math.NewInt(5), Outgoing: math.NewInt(4)}})
		accepted = g.Validate() == nil
	case 5:
		g := defaultGenesis()
		g.DispatcherGenesis.DispatchedCounts = append(g.DispatcherGenesis.DispatchedCounts, dispatchertypes.DispatchCountEntry{SourceId: good, DestinationId: id, Count: 3})
		accepted = g.Validate() == nil
	default:
		g := defaultGenesis()
		g.DispatcherGenesis.DispatchedCounts = append(g.DispatcherGenesis.DispatchedCounts, dispatchertypes.DispatchCountEntry{SourceId: id, DestinationId: good, Count: 3})
		accepted = g.Validate() == nil
	}
	if accepted {
		verif.Cover("accepted")
		verif.Assert(canonicalU32(s), "accepted-implies-canonical")
	} else {
		verif.Cover("rejected")
	}
}

// H_C17_boundary: identifiers at the limits validation allows (counterparty identifiers of 31, 32 and 33 bytes, the
// largest and the first too large domain number, every protocol) in every kind of genesis entry: whatever validation
// accepts initialises, exports and validates again.
func H_C17_boundary() {
	w := NewWorld(false)
	p := core.ProtocolID(1 + verif.Choose("protocol", 4))
	cp := []string{"aaaaaaaaaaaaaaaaaaaaaaaaaaaaaaa", "bbbbbbbbbbbbbbbbbbbbbbbbbbbbbbbb", "ccccccccccccccccccccccccccccccccc", "4294967295", "4294967296", "channel-18446744073709551615", "channel-18446744073709551616"}[verif.Choose("identifier", 7)]
	id := &core.CrossChainID{ProtocolId: p, CounterpartyId: cp}
	good := &core.CrossChainID{ProtocolId: core.PROTOCOL_IBC, CounterpartyId: "channel-0"}
	g := defaultGenesis()
	amt := dispatchertypes.AmountDispatched{Incoming: math.NewInt(5), Outgoing: math.NewInt(4)}
	switch verif.Choose("entry", 5) {
	case 0:
		g.ForwarderGenesis.PausedCrossChainIds = append(g.ForwarderGenesis.PausedCrossChainIds, id)
	case 1:
		g.DispatcherGenesis.DispatchedAmounts = append(g.DispatcherGenesis.DispatchedAmounts, dispatchertypes.DispatchedAmountEntry{SourceId: good, DestinationId: id, Denom: "uusdc", AmountDispatched: amt})
	case 2:
		g.DispatcherGenesis.DispatchedAmounts = append(g.DispatcherGenesis.DispatchedAmounts, dispatchertypes.DispatchedAmountEntry{SourceId: id, DestinationId: good, Denom: "uusdc", AmountDispatched: amt})
	case 3:
		g.DispatcherGenesis.DispatchedCounts = append(g.DispatcherGenesis.DispatchedCounts, dispatchertypes.DispatchCountEntry{SourceId: good, DestinationId: id, Count: 3})
	default:
		g.DispatcherGenesis.DispatchedCounts = append(g.DispatcherGenesis.DispatchedCounts, dispatchertypes.DispatchCountEntry{SourceId: id, DestinationId: good, Count: 3})
	}
	if g.Validate() != nil {
		verif.Cover("genesis-rejected")
		return
	}
	verif.Cover("genesis-accepted")
	w.K.InitGenesis(w.Ctx, *g) // a panic here is the violation
	e := w.K.ExportGenesis(w.Ctx)
	verif.Assert(e.Validate() == nil, "exported-genesis-validates")
	sameGenesis(g, e, "export-is-the-genesis")
}
