// Package verif is the harness API.
//
// Symbolically every exported function here is intercepted by the engine (bodies are never executed).
// Natively the bodies below run: draws are read, in order, from a witness (the values the solver
// assigned to the draws of one path); Assert/Cover/Observe write a trace to stdout, which the engine
// compares with what it computed symbolically (trace validation) or uses to confirm a counterexample.
package verif

import (
	"encoding/json"
	"context"
	"fmt"
	"math/big"
	"math/rand"
	"reflect"
	"strings"
	"time"

	corestore "cosmossdk.io/core/store"
	"cosmossdk.io/log"
	"cosmossdk.io/math"
	"cosmossdk.io/store"
	"cosmossdk.io/store/metrics"
	storetypes "cosmossdk.io/store/types"
	cmtproto "github.com/cometbft/cometbft/proto/tendermint/types"
	dbm "github.com/cosmos/cosmos-db"
	"github.com/cosmos/cosmos-sdk/codec"
	"github.com/cosmos/cosmos-sdk/runtime"
	sdk "github.com/cosmos/cosmos-sdk/types"
	gogoproto "github.com/cosmos/gogoproto/proto"
	transfertypes "github.com/cosmos/ibc-go/v8/modules/apps/transfer/types"

	orbiter "github.com/noble-assets/orbiter/v2"
	"github.com/noble-assets/orbiter/v2/testutil"
	"github.com/noble-assets/orbiter/v2/types/core"
)

func init() { testutil.SetSDKConfig() }

type Draw struct {
	Label string `json:"label"`
	Kind  string `json:"kind"`
	Value string `json:"value"` // decimal for numbers/bools(0/1), hex for strings
}

var (
	tape   []Draw
	pos    int
	Failed []string
	tier   string
	bounds map[string]int
)

// AssumeFalse is the panic value used natively when an Assume does not hold on the witness.
type AssumeFalse struct{}

// Diverged is the panic value used natively when the native run asks for a draw the witness does not have:
// the native path differs from the symbolic one (never counted as a confirmation of anything).
type Diverged struct{ Msg string }

// Reset installs a witness (native side only).
func Reset(w []Draw, t string, b map[string]int) {
	tape, pos, Failed, tier, bounds = w, 0, nil, t, b
	Lenient, LenientSeed, rng = false, 0, nil
}

// Lenient: draws beyond the end of the witness are completed natively instead of diverging (concolic fallback: the
// witness is a solver model of a path prefix the engine could not continue; the native run completes it concretely).
// LenientSeed == 0: default values; otherwise pseudo-random values from that seed.
var (
	Lenient     bool
	LenientSeed int64
	rng         *rand.Rand
)

func exhausted() bool { return Lenient && pos >= len(tape) }

func rnd(n int) int {
	if LenientSeed == 0 || n <= 0 {
		return 0
	}
	if rng == nil {
		rng = rand.New(rand.NewSource(LenientSeed))
	}
	return rng.Intn(n)
}

func next(label, kind string) string {
	if pos >= len(tape) {
		if Lenient {
			pos++
			switch kind {
			case "string":
				return ""
			case "bool":
				return fmt.Sprint(rnd(2))
			case "uint32", "uint64", "int32", "bigint":
				return []string{"0", "1", "2", "100", "10000", "4294967295"}[rnd(6)]
			}
			return "0"
		}
		panic(Diverged{fmt.Sprintf("witness exhausted at draw %d (%s)", pos, label)})
	}
	d := tape[pos]
	pos++
	if d.Label != label || d.Kind != kind {
		panic(Diverged{fmt.Sprintf("draw %d is %s/%s in the witness but %s/%s natively", pos-1, d.Label, d.Kind, label, kind)})
	}
	return d.Value
}

func num(s string) *big.Int {
	v, ok := new(big.Int).SetString(s, 10)
	if !ok {
		panic("verif: bad number " + s)
	}
	return v
}

// Bound returns the named bound of the current tier (a concrete number chosen by the harness spec).
func Bound(name string) int {
	v, ok := bounds[name]
	if !ok {
		panic("verif: unknown bound " + name)
	}
	return v
}

// String draws an arbitrary string of at most maxLen bytes.
func String(label string, maxLen int) string {
	h := next(label, "string")
	out := make([]byte, len(h)/2)
	for i := range out {
		fmt.Sscanf(h[2*i:2*i+2], "%02x", &out[i])
	}
	if len(out) > maxLen {
		panic("verif: witness string longer than bound")
	}
	return string(out)
}

// Bytes draws an arbitrary byte slice of at most maxLen bytes.
func Bytes(label string, maxLen int) []byte {
	s := String(label, maxLen)
	if len(s) == 0 {
		return []byte{}
	}
	return []byte(s)
}

func Uint32(label string) uint32 { return uint32(num(next(label, "uint32")).Uint64()) }
func Uint64(label string) uint64 { return num(next(label, "uint64")).Uint64() }
func Int32(label string) int32   { return int32(num(next(label, "int32")).Int64()) }
func Bool(label string) bool     { return next(label, "bool") == "1" }

// Choose draws a number in [0,n); the engine forks on it, so the result is concrete on every path.
func Choose(label string, n int) int {
	if exhausted() {
		pos++
		return rnd(n)
	}
	return int(num(next(label, "choose")).Int64())
}

// BigInt draws an arbitrary math.Int with |v| < 2^256.
func BigInt(label string) math.Int { return math.NewIntFromBigInt(num(next(label, "bigint"))) }

func Assume(c bool) {
	if !c {
		fmt.Println("TRACE assume-false")
		panic(AssumeFalse{})
	}
}

func Assert(c bool, label string) {
	if muted {
		return
	}
	if c {
		fmt.Println("TRACE assert-ok", label)
	} else {
		fmt.Println("TRACE assert-FAILED", label)
		Failed = append(Failed, label)
	}
}

// Cover marks a point that must be reachable (vacuity guard) and is part of the validated trace.
func Cover(label string) {
	if !muted {
		fmt.Println("TRACE cover", label)
	}
}

// ---- C19: run-to-run variation -------------------------------------------------------------------------------------------
// Symbolically the sources of variation Go has (map iteration order, clock, randomness, addresses rendered in texts) are
// symbolic inputs of the run; natively they are whatever this process happens to produce, so a harness that compares two
// runs repeats the second one a number of times (Retries) — silently (Mute) — to give Go's map randomisation a chance.

var muted bool

// Schedule(true) releases the iteration order of map ranges for the code that runs afterwards (symbolically: a fork per
// order; natively: nothing to do, the runtime randomises).
func Schedule(on bool) {}

// Retries is how often the native run repeats a comparison (symbolically 1: every order is explored by the solver).
func Retries(n int) int { return n }

// Mute switches the trace (and assertions) off for the repeats of a native comparison.
func Mute(on bool) { muted = on }

// Same reports whether two values have the same CONTENT (pointers are followed): what a replaying node would observe.
func Same(a, b any) bool { return reflect.DeepEqual(a, b) }

// NewEnv returns a context and a KV store service. Natively: a real in-memory IAVL multistore
// (as testutil/mocks.NewDependencies). Symbolically: intercepted, opaque (collections are summarised).
var envKey = storetypes.NewKVStoreKey("orbiter")

func NewEnv() (context.Context, corestore.KVStoreService) {
	key := envKey // (one key object for every environment: each mounts it in its own multistore)
	db := dbm.NewMemDB()
	cms := store.NewCommitMultiStore(db, log.NewNopLogger(), metrics.NewNoOpMetrics())
	cms.MountStoreWithDB(key, storetypes.StoreTypeIAVL, db)
	if err := cms.LoadLatestVersion(); err != nil {
		panic(err)
	}
	ctx := sdk.NewContext(cms, cmtproto.Header{Time: time.Unix(0, 0)}, false, log.NewNopLogger())
	return ctx, runtime.NewKVStoreService(key)
}

var realCodec codec.Codec

// RealCodec: natively the proto codec with orbiter's interfaces registered; symbolically intercepted
// (an opaque non-nil codec whose JSON methods are the engine's blob summaries).
func RealCodec() codec.Codec {
	if realCodec == nil {
		cfg := testutil.MakeTestEncodingConfig("noble")
		orbiter.RegisterInterfaces(cfg.InterfaceRegistry)
		realCodec = cfg.Codec
	}
	return realCodec
}

// ---- Z: unbounded specification integers ----------------------------------------------------------
// Reference formulas (e.g. 10000*(c+1)) must not themselves hit math.Int's 256-bit panic, so they are
// written with Z: *big.Int natively, an SMT Int symbolically (all functions below are intercepted).

type Z struct{ v *big.Int }

func ZOf(x math.Int) Z      { return Z{x.BigInt()} }
func ZInt(x int64) Z        { return Z{big.NewInt(x)} }
func ZU64(x uint64) Z       { return Z{new(big.Int).SetUint64(x)} }
func ZAdd(a, b Z) Z         { return Z{new(big.Int).Add(a.v, b.v)} }
func ZSub(a, b Z) Z         { return Z{new(big.Int).Sub(a.v, b.v)} }
func ZMul(a, b Z) Z         { return Z{new(big.Int).Mul(a.v, b.v)} }
func ZLt(a, b Z) bool       { return a.v.Cmp(b.v) < 0 }
func ZLe(a, b Z) bool       { return a.v.Cmp(b.v) <= 0 }
func ZEq(a, b Z) bool       { return a.v.Cmp(b.v) == 0 }
func ZPow2(n uint) Z        { return Z{new(big.Int).Lsh(big.NewInt(1), n)} }

// ZFloorDiv is floor(a/k) for k > 0 (Euclidean division, as SMT-LIB div).
func ZFloorDiv(a Z, k int64) Z {
	q, m := new(big.Int).DivMod(a.v, big.NewInt(k), new(big.Int))
	_ = m
	return Z{q}
}

// ---- codec blobs ----------------------------------------------------------------------------------------
// Symbolically an encoded value is an abstract blob with decode(encode(x)) = x (the codecs are library code,
// summarised, DESIGN.md §2.5). Natively the real codecs run.

// SDKContext unwraps the context returned by NewEnv (symbolically: an opaque token).
func SDKContext(ctx context.Context) sdk.Context { return sdk.UnwrapSDKContext(ctx) }

// EncodeICS20 is the ICS-20 packet data encoding (JSON).
func EncodeICS20(d transfertypes.FungibleTokenPacketData) []byte { return d.GetBytes() }

// EncodeICS20Wire is the same packet data in another wire form that every JSON decoder maps to the same fields:
// 0 canonical (GetBytes: sorted keys, empty fields omitted), 1 every field present, also the empty ones, keys in reverse
// order, 2 empty fields omitted, first character of every value written as a \u escape, white space between the tokens.
// Symbolically the document is abstract in all forms (its bytes exist only natively); a decoder leaves the fields that
// are absent from the document (forms 0 and 2) as they were in its target.
func EncodeICS20Wire(d transfertypes.FungibleTokenPacketData, wire int) []byte {
	if wire == 0 {
		return d.GetBytes()
	}
	type kv struct{ k, v string }
	fields := []kv{{"amount", d.Amount}, {"denom", d.Denom}, {"memo", d.Memo}, {"receiver", d.Receiver}, {"sender", d.Sender}}
	if wire == 1 {
		for i, j := 0, len(fields)-1; i < j; i, j = i+1, j-1 {
			fields[i], fields[j] = fields[j], fields[i]
		}
	}
	var sb strings.Builder
	sb.WriteString("{")
	first := true
	for _, f := range fields {
		if wire == 2 && f.v == "" {
			continue
		}
		q, err := json.Marshal(f.v)
		if err != nil {
			panic(Diverged{"field cannot be marshalled natively"})
		}
		qs := string(q)
		if wire == 2 && len(f.v) > 0 && f.v[0] >= 0x20 && f.v[0] < 0x7f && f.v[0] != '"' && f.v[0] != '\\' && f.v[0] != '<' && f.v[0] != '>' && f.v[0] != '&' {
			qs = fmt.Sprintf("\"\\u%04x", f.v[0]) + qs[2:]
		}
		if !first {
			sb.WriteString(",")
		}
		first = false
		if wire == 2 {
			sb.WriteString("\n  ")
		}
		sb.WriteString("\"" + f.k + "\":")
		if wire == 2 {
			sb.WriteString(" ")
		}
		sb.WriteString(qs)
	}
	if wire == 2 {
		sb.WriteString("\n")
	}
	sb.WriteString("}")
	return []byte(sb.String())
}

// EncodeICS20Unknown is ICS-20 packet data with an additional unknown field: JSON that a lenient decoder (encoding/json)
// accepts but the strict proto JSON codec of the transfer application refuses.
func EncodeICS20Unknown(d transfertypes.FungibleTokenPacketData) []byte {
	b := d.GetBytes()
	return append(b[:len(b)-1:len(b)-1], []byte(`,"version":"ics20-2"}`)...)
}

// Garbage is packet data that is not ICS-20 JSON.
func Garbage() []byte { return []byte("\x00not json") }

// EncodeMemo renders {"orbiter": <payload>} plus extraRootKeys further root keys.
func EncodeMemo(w *core.PayloadWrapper, extraRootKeys int) string {
	bz, err := RealCodec().MarshalJSON(w)
	if err != nil {
		panic(Diverged{"memo cannot be marshalled natively: " + err.Error()})
	}
	s := string(bz)
	// negative: the root key in another letter case (-1 "ORBITER", -2 "Orbiter", -3 "orbiter" and "Orbiter")
	if extraRootKeys < 0 && strings.HasPrefix(s, `{"orbiter":`) {
		body := s[len(`{"orbiter":`) : len(s)-1]
		switch extraRootKeys {
		case -1:
			s = `{"ORBITER":` + body + "}"
		case -2:
			s = `{"Orbiter":` + body + "}"
		default:
			s = `{"orbiter":` + body + `,"Orbiter":` + body + "}"
		}
	}
	for k := 0; k < extraRootKeys; k++ {
		s = s[:len(s)-1] + fmt.Sprintf(",\"extra%d\":1}", k)
	}
	return s
}

// EncodeMemoTail is EncodeMemo followed by bytes after the closing brace: 0 nothing, 1 a second closing brace, 2 a word,
// 3 a second document, 4 white space only (the only tail that leaves the memo a JSON document).
func EncodeMemoTail(w *core.PayloadWrapper, extraRootKeys, tail int) string {
	return EncodeMemo(w, extraRootKeys) + []string{"", "}", " trailing", ` {"orbiter":null}`, "\n \t"}[tail]
}

// DecodeJSON is ProtoCodec.UnmarshalJSON (with interface unpacking).
func DecodeJSON(bz []byte, m gogoproto.Message) error { return RealCodec().UnmarshalJSON(bz, m) }

// ZeroBytes draws a byte slice of arbitrary length in [0,maxLen] whose content is all zero (only its
// length is symbolic: for code that reads nothing but len).
func ZeroBytes(label string, maxLen int) []byte {
	n := int(num(next(label, "len")).Int64())
	if n > maxLen {
		panic("verif: witness length beyond bound")
	}
	return make([]byte, n)
}

// Atomically runs f the way baseapp / IBC core run a message: on a cached context whose writes are
// committed only if f returns nil (assumption E1). Symbolically: snapshot / restore of the collections.
func Atomically(ctx sdk.Context, f func(ctx sdk.Context) error) error {
	cctx, write := ctx.CacheContext()
	err := f(cctx)
	if err == nil {
		write()
	}
	return err
}

// AtomicallyOrAbort is Atomically for code that may panic: baseapp recovers a panic of a message handler, fails the
// transaction and discards its writes (E1). aborted reports that this happened. Only for properties that are not about
// panics themselves (C14 treats every reachable panic as a violation).
func AtomicallyOrAbort(ctx sdk.Context, f func(ctx sdk.Context) error) (err error, aborted bool) {
	cctx, write := ctx.CacheContext()
	defer func() {
		if r := recover(); r != nil {
			switch x := r.(type) {
			case AssumeFalse, Diverged:
				panic(r)
			case string:
				if strings.HasPrefix(x, "verif:") {
					panic(r)
				}
			}
			err, aborted = nil, true
		}
	}()
	err = f(cctx)
	if err == nil {
		write()
	}
	return err, false
}

// Injected is the value an environment model panics with when the harness asks it to fail by panicking.
type Injected struct{ What string }

// Aborts runs f and reports whether it was aborted by an injected panic that nothing below recovered (the transaction
// is then reverted by the caller of the module, E1). Any other panic goes on.
func Aborts(f func()) (aborted bool) {
	defer func() {
		if r := recover(); r != nil {
			if _, ok := r.(Injected); ok {
				aborted = true
				return
			}
			panic(r)
		}
	}()
	f()
	return false
}

// StateDigest is a digest of everything the module has in its store (natively: all key/value pairs of the
// orbiter store; symbolically: the content of every summarised collection).
func StateDigest(ctx sdk.Context) string {
	var sb strings.Builder
	for _, k := range ctx.MultiStore().(interface{ StoreKeysByName() map[string]storetypes.StoreKey }).StoreKeysByName() {
		it := ctx.KVStore(k).Iterator(nil, nil)
		for ; it.Valid(); it.Next() {
			if len(it.Key()) > 0 && it.Key()[0] == sidePrefix {
				continue // the harness' own side store (bank model), not module state
			}
			fmt.Fprintf(&sb, "%x=%x;", it.Key(), it.Value())
		}
		it.Close()
	}
	return sb.String()
}

// ---- side store: integers kept IN the context's store (under a prefix the module does not use), so that whatever
// branches or reverts the store (CacheContext inside the module, IBC / baseapp around it: E1) branches and reverts them
// too. The bank ledger model keeps its balances here. Symbolically: a per-environment table that is snapshotted and
// branched together with the summarised collections.

const sidePrefix = 0xEE

func sideKey(ctx context.Context, key string) (storetypes.KVStore, []byte) {
	return sdk.UnwrapSDKContext(ctx).KVStore(envKey), append([]byte{sidePrefix}, key...)
}

// SideGet reads an integer of the side store (zero when absent).
func SideGet(ctx context.Context, key string) math.Int {
	st, k := sideKey(ctx, key)
	bz := st.Get(k)
	if bz == nil {
		return math.ZeroInt()
	}
	v, ok := math.NewIntFromString(string(bz))
	if !ok {
		panic("verif: bad side store value")
	}
	return v
}

// SideSet writes an integer of the side store.
func SideSet(ctx context.Context, key string, v math.Int) {
	st, k := sideKey(ctx, key)
	st.Set(k, []byte(v.String()))
}

// KnownAddress tells the engine about an account the harness uses, so that a SYMBOLIC receiver string can decode to it
// (bech32 preimage axiom: an address has exactly two spellings, lower and upper case). Natively a no-op.
func KnownAddress(a sdk.AccAddress) {}

// SlashFree draws a string of exactly n bytes none of which is '/' (denominations are built from such segments, so
// that the number of separators — what strings.Split forks on — is chosen explicitly).
func SlashFree(label string, n int) string {
	s := String(label, n)
	if len(s) != n {
		panic(Diverged{"segment length differs from the witness"})
	}
	return s
}
