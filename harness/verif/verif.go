// Package verif is the harness API.
//
// Symbolically every exported function here is intercepted by the engine (bodies are never executed).
// Natively the bodies below run: draws are read, in order, from a witness (the values the solver
// assigned to the draws of one path); Assert/Cover/Observe write a trace to stdout, which the engine
// compares with what it computed symbolically (trace validation) or uses to confirm a counterexample.
package verif

import (
	"context"
	"fmt"
	"math/big"
	"time"

	corestore "cosmossdk.io/core/store"
	"cosmossdk.io/log"
	"cosmossdk.io/math"
	"cosmossdk.io/store"
	"cosmossdk.io/store/metrics"
	storetypes "cosmossdk.io/store/types"
	cmtproto "github.com/cometbft/cometbft/proto/tendermint/types"
	dbm "github.com/cosmos/cosmos-db"
	"github.com/cosmos/cosmos-sdk/codec"
	"github.com/cosmos/cosmos-sdk/runtime"
	sdk "github.com/cosmos/cosmos-sdk/types"

	orbiter "github.com/noble-assets/orbiter/v2"
	"github.com/noble-assets/orbiter/v2/testutil"
)

func init() { testutil.SetSDKConfig() }

type Draw struct {
	Label string `json:"label"`
	Kind  string `json:"kind"`
	Value string `json:"value"` // decimal for numbers/bools(0/1), hex for strings
}

var (
	tape   []Draw
	pos    int
	Failed []string
	tier   string
	bounds map[string]int
)

// AssumeFalse is the panic value used natively when an Assume does not hold on the witness.
type AssumeFalse struct{}

// Reset installs a witness (native side only).
func Reset(w []Draw, t string, b map[string]int) {
	tape, pos, Failed, tier, bounds = w, 0, nil, t, b
}

func next(label, kind string) string {
	if pos >= len(tape) {
		panic(fmt.Sprintf("verif: witness exhausted at draw %d (%s)", pos, label))
	}
	d := tape[pos]
	pos++
	if d.Label != label || d.Kind != kind {
		panic(fmt.Sprintf("verif: draw %d is %s/%s in the witness but %s/%s natively (path diverged)", pos-1, d.Label, d.Kind, label, kind))
	}
	return d.Value
}

func num(s string) *big.Int {
	v, ok := new(big.Int).SetString(s, 10)
	if !ok {
		panic("verif: bad number " + s)
	}
	return v
}

// Bound returns the named bound of the current tier (a concrete number chosen by the harness spec).
func Bound(name string) int {
	v, ok := bounds[name]
	if !ok {
		panic("verif: unknown bound " + name)
	}
	return v
}

// String draws an arbitrary string of at most maxLen bytes.
func String(label string, maxLen int) string {
	h := next(label, "string")
	out := make([]byte, len(h)/2)
	for i := range out {
		fmt.Sscanf(h[2*i:2*i+2], "%02x", &out[i])
	}
	if len(out) > maxLen {
		panic("verif: witness string longer than bound")
	}
	return string(out)
}

// Bytes draws an arbitrary byte slice of at most maxLen bytes.
func Bytes(label string, maxLen int) []byte {
	s := String(label, maxLen)
	if len(s) == 0 {
		return []byte{}
	}
	return []byte(s)
}

func Uint32(label string) uint32 { return uint32(num(next(label, "uint32")).Uint64()) }
func Uint64(label string) uint64 { return num(next(label, "uint64")).Uint64() }
func Int32(label string) int32   { return int32(num(next(label, "int32")).Int64()) }
func Bool(label string) bool     { return next(label, "bool") == "1" }

// Choose draws a number in [0,n); the engine forks on it, so the result is concrete on every path.
func Choose(label string, n int) int { return int(num(next(label, "choose")).Int64()) }

// BigInt draws an arbitrary math.Int with |v| < 2^256.
func BigInt(label string) math.Int { return math.NewIntFromBigInt(num(next(label, "bigint"))) }

func Assume(c bool) {
	if !c {
		fmt.Println("TRACE assume-false")
		panic(AssumeFalse{})
	}
}

func Assert(c bool, label string) {
	if c {
		fmt.Println("TRACE assert-ok", label)
	} else {
		fmt.Println("TRACE assert-FAILED", label)
		Failed = append(Failed, label)
	}
}

// Cover marks a point that must be reachable (vacuity guard) and is part of the validated trace.
func Cover(label string) { fmt.Println("TRACE cover", label) }

// NewEnv returns a context and a KV store service. Natively: a real in-memory IAVL multistore
// (as testutil/mocks.NewDependencies). Symbolically: intercepted, opaque (collections are summarised).
func NewEnv() (context.Context, corestore.KVStoreService) {
	key := storetypes.NewKVStoreKey("orbiter")
	db := dbm.NewMemDB()
	cms := store.NewCommitMultiStore(db, log.NewNopLogger(), metrics.NewNoOpMetrics())
	cms.MountStoreWithDB(key, storetypes.StoreTypeIAVL, db)
	if err := cms.LoadLatestVersion(); err != nil {
		panic(err)
	}
	ctx := sdk.NewContext(cms, cmtproto.Header{Time: time.Unix(0, 0)}, false, log.NewNopLogger())
	return ctx, runtime.NewKVStoreService(key)
}

var realCodec codec.Codec

// RealCodec: natively the proto codec with orbiter's interfaces registered; symbolically intercepted
// (an opaque non-nil codec whose JSON methods are the engine's blob summaries).
func RealCodec() codec.Codec {
	if realCodec == nil {
		cfg := testutil.MakeTestEncodingConfig("noble")
		orbiter.RegisterInterfaces(cfg.InterfaceRegistry)
		realCodec = cfg.Codec
	}
	return realCodec
}
