#!/usr/bin/env python3
"""Generates /verif/MANIFEST.json from the table below (one place to keep claims, notes and the not_applicable list)."""
import json, os, sys
here = os.path.dirname(os.path.dirname(os.path.abspath(__file__)))

TECH = "bounded symbolic execution of the real Go SSA (own engine gosx) + SMT (z3 / cvc5), counterexamples replayed natively"

# id -> (level text, level_note, design_ref)
CLAIMED = {
 "C20": ("Every path of ValidateCounterpartyID / NewCrossChainID / ID / ParseCrossChainID / CounterpartyID() (real SSA incl. the real strconv parsers) is executed symbolically over ALL counterparty strings up to the bound and all 2^32 domains; accepted<=>canonical-uint32, form->pair->form round trip and injectivity are decided by solver verdict per path; every counterexample is replayed against the natively compiled code before it is reported.",
         "Bounds: counterparty strings <= 12 bytes quick / <= 33 bytes thorough (33 = one past the code's own MaxCounterpartyIDLength), full-id strings <= 8/12 bytes for the parser soundness harness, two pairs of <= 3/5 bytes for distinctness. Trusted: IsValidChannelID summarised as a byte predicate; fmt.Sprintf(%d)/FormatUint summarised relationally (x = sum d_i*10^i). Validated each run by native trace comparison.",
         "DESIGN.md §3 C20"),

 "C01": ("One packet through the real IBCMiddleware.OnRecvPacket on the wired module (real keeper, adapter, dispatcher, executor, forwarder, fee and forwarding controllers) over an ICS-20 application model and a bank ledger: receiver = both spellings of the orbiter address, mixed case, other accounts, the blocked dust collector, empty, malformed and an ARBITRARY 48-byte string; all four denom classes; any amount (also <= 0 and non-numbers); six memo classes; every route and internal recipient (user, fee recipient, blocked account, the orbiter account itself, malformed); symbolic fees; arbitrary prior orbiter balances, escrow balance, pause and parameter configuration. Asserted on every path: success ack => orbiter balance of every tracked denom not larger than before; addressed to the orbiter account and success => nothing of the transferred denom left and exactly one bridge request.",
         "Bounds: fee lists 0..1 quick / 0..2 thorough, passthrough 0..1 bytes, domains {0,5}; the two bounds profiles (all receivers x plain payload, orbiter receivers x all payloads) are not the full product. Relative to the ICS-20 / bank / bridge models and E1; an arbitrary receiver string other than a spelling of a known account is treated as undecodable.",
         "DESIGN.md §3 C01"),
 "C02": ("Same run as C01 restricted to successful orbiter transfers, with ledger-delta equations over ten tracked accounts x four denoms written in unbounded integers: escrow released exactly the packet coin; fee credits + outgoing = that coin; outgoing > 0; the dust collector gained exactly the prior orbiter balance; orbiter empty in the transferred denom; every other account and denom unchanged; total supply changes only by the CCTP burn. Amounts are SMT integers in [1, 2^256), fees symbolic (bps and fixed).",
         "Bounds: fee lists 0..2 quick / 0..3 thorough, all three routes, internal recipient user / fee recipient (+ blocked, malformed in thorough). Relative to the bridge models (CCTP burns, warp locks collateral, bank credits).",
         "DESIGN.md §3 C02"),
 "C03": ("Same run with an independent symbolic failure bit at every fallible environment call (each bank send, the module-to-module sweep, the wrapped ICS-20 application, the Hyperlane token query, each bridge request, each event emission): success ack => no bit that was drawn on the path was set, exactly one bridge request happened, nothing is left on the orbiter account, every non-zero fee entry was paid and the processed event was emitted. All subsets of failures are covered because the bits are independent solver variables.",
         "Bounds: fee lists 0..1 quick / 0..2 thorough; up to ~8 failure bits per path. Statistics write failures are the documented exception and do not occur in the collections summary. 'Fees are never kept' additionally needs E1 (IBC discards the cached context on an error ack).",
         "DESIGN.md §3 C03"),
 "C07": ("Same packet space restricted to traffic that is not an ICS-20 transfer whose receiver decodes to the orbiter account (incl. non-ICS-20 bytes and memos that contain a perfectly valid orbiter payload): the returned acknowledgement IS the object the wrapped application returned; the application was called exactly once with the identical packet and relayer; the content of every orbiter collection is identical before and after; no orbiter event, no bridge request, no bank read or write by orbiter; the orbiter and dust-collector accounts are untouched except by the application's own credit.",
         "Bounds as C01. Acknowledgement / timeout / send callbacks are not driven: the middleware type embeds the wrapped interfaces; an explicit override added later would not be seen by this harness (stated gap). Under E2 the NewCrossChainID guard on the destination channel cannot fire.",
         "DESIGN.md §3 C07"),
 "C11": ("Two freshly wired modules receive the same drawn packet; one starts with arbitrary coins on the orbiter account (transferred denom and another denom), the other with none: equal acknowledgement class; on success equal balance deltas for every account but orbiter / dust collector, equal bridge requests and forwarded amounts, equal exported statistics; the prior coins of the transferred denom are exactly what the dust collector gained, nothing is left on the orbiter account, the other denom stays where it was.",
         "Bounds: fee lists 0..1 quick / 0..2 thorough. Send restrictions of other modules on the sweep are outside the claim.",
         "DESIGN.md §3 C11"),
 "C05": ("Per route, the real Forwarder.HandlePacket -> controller -> bridge model with FULLY symbolic attributes (uint32 domains, byte fields of arbitrary length 0..33 and content, hook metadata classes, arbitrary gas limit and max fee) and the transfer attributes as left by arbitrary pre-actions (source A, destination D, 0 < D <= A): executed iff the attributes are valid for that route; exactly one request reaches exactly the model of the protocol named by the identifier and every request field equals the payload's field; amount / denom are the POST-action coin; sender is the orbiter account; DepositForBurnWithCaller iff a caller is given; custom hook nil iff empty; the Hyperlane token query names the payload's token. Plus every (protocol id incl. out-of-enum numbers x attribute type incl. none) and (action id x attribute type) combination: refused with zero requests unless identifier and type agree and a controller exists; and ReplaceDepositForBurn with arbitrary blobs reaches CCTP with exactly its fields and the orbiter account as owner.",
         "Bounds: byte fields 0..33 bytes (33 = one past the only accepted length), Hyperlane domains in [0,10) quick plus [10^9, 2^32) thorough and the two refused Noble domains, custom hook from three shapes quick / fully symbolic thorough, replace blobs <= 8 / 64 bytes. depinject.go wiring is outside the claim. Relative to the bridge models (which also mirror the warp keeper's panics on invalid max fee).",
         "DESIGN.md §3 C05"),
 "C06": ("The real dispatcher, executor and forwarder with the real fee controller and a denomination-changing harness controller registered under ACTION_SWAP: every action list over {FEE, SWAP} of length 0..2 and four lists repeating an identifier, arbitrary amount, bps and swapped coin. Each stage saw exactly the coin left by its predecessor (the swap's recorded input; the fee computed on and paid in the running coin), the forwarding request carries exactly the coin left by the last action, the source coin never changes, and a payload repeating an identifier is refused before any controller runs.",
         "Bounds: lists of length <= 2 (3 for repeated ids), amounts < 10^60, bps in [1,10000]. Internal route only (the one that carries any denomination).",
         "DESIGN.md §3 C06"),
 "C08": ("The real forwarder Msg and Query servers and the real middleware receive path on the wired module, against a reference model of the two pause sets: (step) from an ARBITRARY pause state one admin message of any kind, any protocol name (valid, unsupported, unknown, empty) and any batch of arbitrary counterparty strings — result error iff the reference says redundant/invalid, batches all-or-nothing (under E1 rollback), one event per accepted message, every pause query equals the reference sets; (enforce) from an arbitrary pause state a transfer to a symbolic destination over each route through OnRecvPacket is executed iff neither its protocol nor its (protocol, counterparty) pair is paused, else error ack and no bridge request; (history) sequences of messages from the empty state followed by a probe; (limit) batches of exactly 100 and 101 identifiers.",
         "Bounds: counterparty strings <= 1-2 bytes quick / 2-3 bytes thorough (IBC ids from {channel-0, channel-1, invalid}), batches 1..2 / 1..3, up to 1 / 2 pre-paused pairs plus any subset of paused protocols, histories of 2 / 3 messages, probe domains < 1000. Empty batches (which pause the whole protocol) are outside the claim. Collections are summarised as association lists incl. the SDK default page size of 100; paging is not decided.",
         "DESIGN.md §3 C08"),
 "C09": ("The real executor Msg and Query servers and the receive path: from any paused subset of {FEE, SWAP}, k pause/unpause messages with any action name checked against a reference set (result, one event per accepted message, PausedActions and IsActionPaused equal the set), then a transfer whose payload contains the fee action, a second (recording) action, both or none through OnRecvPacket: refused with error ack, no fee paid, action never run iff one of its actions is paused; otherwise fee and delivery exactly as with no pause at all.",
         "Bounds: k = 2 quick / 4 thorough messages. A recording stub controller is registered under ACTION_SWAP so both identifiers are routable. Relative to the KeySet summary (incl. Iterate) and the bank / ICS-20 models.",
         "DESIGN.md §3 C09"),
 "C10": ("Every Msg RPC is driven on the servers that the real keeper.RegisterMsgServers registers (recording configurator), from a non-trivial state, with an ARBITRARY signer string (any bytes up to the bound, other than the authority's bech32 string in either letter case) and arbitrary bodies: must return an error, leave the content of every orbiter collection identical, emit no event, reach no bridge, move no funds. The same harness first shows the authority succeeding with valid content on each component. The RPC list is enumerated from the type information of the current source (interfaces named MsgServer): an RPC without a harness case makes the check inconclusive, not silent.",
         "Bounds: signer strings <= 50 bytes quick / <= 64 thorough (the authority string has 44). New RPCs are detected but need a harness case to be decided. depinject wiring is outside the claim (the harness wires through the exported constructors as depinject.go does).",
         "DESIGN.md §3 C10"),
 "C12": ("One inductive step of the real DispatchPayload / UpdateStats / BuildDenomDispatchedAmounts / state accessors on the IndexedMap summary (with the real index closures): from ARBITRARY pre-existing statistics (entries on the transfer's own keys and on keys differing in source, destination protocol, destination counterparty or denom; any totals and counts), one transfer of any amount over each route, with no action / a symbolic bps fee / a denomination-changing action, the bridge accepting or refusing: on success incoming += received and outgoing += forwarded on exactly the right entries, count += 1, every other entry unchanged, incoming - outgoing = fee; on refusal the statistics are byte-for-byte unchanged.",
         "Bounds: 1 / 2 pre-existing amount entries and count entries, destination domains concrete (7, 9), amounts < 10^60, totals < 10^70, counts < 2^64-1 (the swallowed statistics-overflow paths are outside the claim). 'Non-orbiter traffic leaves them unchanged' is asserted in C07's harness.",
         "DESIGN.md §3 C12"),
 "C14": ("The no-panic obligation on every path of the receive path: every instruction that can panic (nil dereference, index / slice bounds, slice-to-array conversion, division by zero, failed type assertion, nil map write, explicit panic) and every documented panic of a summarised library call (math.Int overflow / nil receiver, sdk.NewCoin / NewCoins on invalid input) yields a solver query 'path condition AND panic condition'; a satisfiable one is replayed natively and reported. Driven by (shapes) arbitrary decoded payload shapes — every pointer position nil or not, identifiers any int32, byte fields of any length, integers and coins of any value — through Payload.Validate, the transfer hook, payload processing and the dispatcher; (packet) arbitrary envelope identifiers (ports, channels as arbitrary strings, non-ICS-20 bytes, blank parties) and arbitrary ICS-20 fields (pathological denominations from '/'-free segments, amounts <= 0, non-numbers, 2^256, memos with extra keys / null payload / broken JSON) through the real OnRecvPacket.",
         "Bounds: 0..1 / 0..2 pre-actions each with 0..1 / 0..2 fee entries, Hyperlane byte fields 0..33 bytes, denominations of 1..3 / 1..4 segments of 0..1 / 0..2 arbitrary bytes, destination channel strings <= 10 / 12 bytes; action shapes and forwarding shapes are varied separately (not the full product). Shapes are built through the exported API, not through JSON: panics inside the JSON / protobuf codecs and bech32 are outside the claim (e.g. \"fees_info\":[null] panics inside jsonpb before orbiter code runs). nil math.Int is excluded (the Any round trip never yields one).",
         "DESIGN.md §3 C14"),
 "C17": ("(Validate => Init) symbolic genesis per component — paused protocol / action ids any int32, cross-chain ids with any protocol and arbitrary counterparty bytes (nil entries allowed), dispatched amount / count entries with arbitrary ids, denoms, amounts (nil ids allowed), nil component sections — and the real GenesisState.Validate followed by the real Keeper.InitGenesis on the collections summary (incl. the key codec's refusal of 0x00): Validate()==nil implies InitGenesis does not panic and re-export has every entry. (Round trip) a history of admin messages, parameter updates and transfers from the empty state; Export validates, initialises a second fresh module, re-exports to the same genesis (as multisets), and both modules treat a further transfer identically (same enforcement, same statistics afterwards).",
         "Bounds: lists of 0..2 / 0..3 ids, 0..1 / 0..2 statistics entries, counterparty strings <= 1-2 / 2-3 bytes, denoms <= 3 / 4 bytes, histories of 2 / 3 operations. JSON (un)marshalling of the genesis document and module.go glue are outside the claim; list order is the store's iteration order (library), compared as multisets.",
         "DESIGN.md §3 C17"),
 "C04": ("The real FeeController.HandlePacket (attribute extraction and validation, ComputeFeesToDistribute, ComputeFeeAmount, total check, executeAction, destination update) is executed symbolically on a bank-ledger model for ALL amounts in [1,2^256), all uint32 bps, all fixed amounts (any integer, and non-numbers), lists of 0..N entries of mixed kinds with repeated / malformed recipients. Asserted per path: refusal iff one of the stated reasons (incl. both overflow kinds), nothing paid and nothing changed on refusal, each bps credit c satisfies 10000c <= A*bps < 10000(c+1), fixed credits exact, list order, recipients, forwarded = A - sum > 0. Non-linear integer queries decided by z3/cvc5; counterexamples replayed natively.",
         "Bounds: 0..2 entries quick, 0..6 entries thorough (one past MaxFeeRecipients). Recipients are concrete strings (valid, repeated, malformed); bech32 decoding is the SDK's. math.Int is modelled as an SMT Int with the 2^256 limit; reference formulas use unbounded integers.",
         "DESIGN.md §3 C04"),
 "C18": ("The real middleware OnRecvPacket -> Adapter.BeforeTransferHook -> CheckPassthroughPayloadSize on the wired module (real keeper, real msg/query servers), after a symbolic parameter history (nothing stored / default genesis / genesis with any uint32 / 0..k UpdateParams with any uint32 by the authority or by someone else) and with a passthrough payload of symbolic length: refused with an error ack BEFORE the ICS-20 credit iff len > limit in force, otherwise the transfer completes; the Params query reports the limit in force.",
         "Bounds: passthrough length 0..70000 quick / 0..5000000 thorough (all-zero content, only len is read), 0..2 / 0..3 parameter updates. Relative to the collections Item summary and the ICS-20 / bank models; a params read failure other than 'never written' is not modelled.",
         "DESIGN.md §3 C18"),
}

NOT_APPLICABLE = {
 "C19": "Determinism across processes (map iteration order, pointer values, fmt reflection) does not exist in an SSA-to-SMT encoding: the encoding is a deterministic function by construction, so the assertion would be vacuous; DESIGN.md §4.",
}

PENDING = "check not built yet in this session (breadth-first order of DESIGN.md §7); not claimed until its harness runs clean on the unchanged tree"

def main():
    props = [json.loads(l)["id"] for l in open(os.path.join(here, "properties.jsonl"))]
    checks, na = [], []
    for pid in props:
        if pid in CLAIMED:
            text, note, ref = CLAIMED[pid]
            checks.append({
                "property_id": pid,
                "quick_cmd": f"./check {pid} quick",
                "thorough_cmd": f"./check {pid} thorough",
                "evidence_file": f"/verif/evidence/{pid}.json",
                "replay_cmd_template": f"./check {pid} --replay {{path}}",
                "engine": "gosx",
                "level_claimed": {"category": "model_checking", "text": text, "design_ref": ref},
                "level_note": note,
                "technique": TECH,
            })
        else:
            na.append({"property_id": pid, "reason": NOT_APPLICABLE.get(pid, PENDING)})
    m = {
        "version": 1,
        "setup_cmd": "./setup.sh",
        "hooks": {
            "guard": "verif",
            "enable": "none needed: harnesses are injected as the virtual package /repo/zzverif/... through go/packages Overlay and `go test -c -overlay`; no file in /repo is changed by the machinery",
            "baseline_off_cmd": "cd /repo && go test -vet=off -count=1 ./...",
            "source_commits": [],
            "add_only": True,
        },
        "engines": [{"name": "gosx", "path": "/verif/engine", "serves_properties": sorted(CLAIMED), "kind_free_text": "SSA symbolic executor for Go (go/ssa, x/tools v0.50.0) emitting SMT-LIB2 to z3 4.8.12 and cvc5 1.0 in lock-step; native replay through go test -c -overlay"}],
        "checks": checks,
        "not_applicable": na,
        "notes": "Exit codes: 0 property held on everything explored; 1 + VIOLATION line = counterexample confirmed against the natively compiled real code; 2 = inconclusive (engine error, cap, solver unknown, vacuity), never a verdict. fix: commits in /repo are listed in known_findings.json.",
    }
    json.dump(m, open(os.path.join(here, "MANIFEST.json"), "w"), indent=1)
    print("claimed:", sorted(CLAIMED), "not claimed:", [x["property_id"] for x in na])

main()
