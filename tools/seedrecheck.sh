#!/bin/bash
# tools/seedrecheck.sh <seed-id> <property> [more properties...]
# re-runs checks against an already verified seeded change (seeded/<id>/patch.diff) in a scratch worktree of /repo HEAD
set -u
id=$1; shift
out=/verif/seeded/$id
sv=/tmp/sv-$id
unset GOFLAGS GOTOOLCHAIN GOSUMDB; export GOPROXY=off
git -C /repo worktree remove --force $sv 2>/dev/null
git -C /repo worktree add -q --detach $sv HEAD
if ! git -C $sv apply $out/patch.diff; then echo "PATCH DOES NOT APPLY"; git -C /repo worktree remove --force $sv; exit 3; fi
res=""
for p in "$@"; do
  GOSX_EVIDENCE_DIR=$out GOSX_REPO_DIR=$sv /verif/bin/gosx check $p quick > $out/check_$p.log 2>&1; rc=$?
  v=$(grep -c '^VIOLATION' $out/check_$p.log)
  echo "seed $id check $p: exit=$rc violations=$v $(grep -m1 'label=' $out/check_$p.log | cut -c1-160)"
  res="$res $p:exit=$rc"
done
git -C /repo worktree remove --force $sv
python3 - <<PY
import json
m=json.load(open("$out/meta.json"))
old=[c for c in m.get("checks_run",[]) if c.split(":")[0] not in [x.split(":")[0] for x in "$res".split()]]
m["checks_run"]=old+"$res".split()
json.dump(m,open("$out/meta.json","w"),indent=1)
PY
