#!/bin/bash
# tools/seedcheck.sh <seed-id> <agent-worktree> <property> [more properties...]
# 1. confirms the seeded change independently in a scratch worktree of /repo HEAD (suite passes, demo fails with / passes without)
# 2. runs the given checks against that worktree (GOSX_REPO_DIR) and records which one catches it
set -u
id=$1; wt=$2; shift 2
out=/verif/seeded/$id; mkdir -p $out
sv=/tmp/sv-$id
unset GOFLAGS GOTOOLCHAIN GOSUMDB; export GOPROXY=off
cp $wt/patch.diff $out/patch.diff
demo=$(cd $wt && git status --porcelain | grep '^??' | awk '{print $2}' | grep '_test.go$' | head -1)
cp $wt/$demo $out/$(basename $demo)
cp $wt/SEED.md $out/SEED.md 2>/dev/null
git -C /repo worktree remove --force $sv 2>/dev/null
git -C /repo worktree add -q $sv HEAD
cd $sv
if ! git apply $out/patch.diff; then echo "PATCH DOES NOT APPLY"; exit 3; fi
suite=fail; go build ./... && go test -vet=off -count=1 ./... > $out/suite.log 2>&1 && suite=pass
cp $wt/$demo $sv/$demo
pkg=./$(dirname $demo)
with=pass; go test -vet=off -count=1 $pkg > $out/demo_with.log 2>&1 || with=fail
git apply -R $out/patch.diff
without=fail; go test -vet=off -count=1 $pkg > $out/demo_without.log 2>&1 && without=pass
rm -f $sv/$demo
git apply $out/patch.diff
echo "seed $id: existing suite with change=$suite demo with change=$with demo without change=$without"
res=""
for p in "$@"; do
  [ -n "${SKIP_CHECKS:-}" ] && continue
  GOSX_EVIDENCE_DIR=$out GOSX_REPO_DIR=$sv /verif/bin/gosx check $p quick > $out/check_$p.log 2>&1; rc=$?
  v=$(grep -c '^VIOLATION' $out/check_$p.log)
  echo "   check $p: exit=$rc violations=$v $(grep -m1 'label=' $out/check_$p.log | cut -c1-200)"
  res="$res $p:exit=$rc"
done
cd /; git -C /repo worktree remove --force $sv
python3 - <<PY
import json
json.dump({"seed":"$id","breaks_property":"$1","demo_test":"$(basename $demo)","demo_package":"$pkg","verified":{"existing_suite_with_change":"$suite","demo_with_change":"$with","demo_without_change":"$without"},"checks_run":"$res".split(),"what_i_ran":"tools/seedcheck.sh $id $wt $*  (scratch worktree of /repo HEAD, patch applied with git apply; go build ./... && go test -vet=off -count=1 ./...; demo test with and without the patch; then ./check <property> quick with GOSX_REPO_DIR pointing at the patched worktree)"},open("$out/meta.json","w"),indent=1)
PY
