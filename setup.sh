#!/bin/sh
# builds the engine binary (the only thing built ahead of time; everything about /repo is rebuilt per check)
set -e
cd "$(dirname "$0")/engine"
mkdir -p ../bin
GOFLAGS=-mod=mod GOPROXY=off GOSUMDB=off GOTOOLCHAIN=local go1.26.8 build -o ../bin/gosx .
echo "built $(cd .. && pwd)/bin/gosx"
